// Demonstrations for C06 through the real gateway and posix backend.
package c06

import (
	"encoding/base64"
	"encoding/binary"
	"fmt"
	"hash/crc32"
	"testing"

	"replay/gwtest"
)

func chunked(payload []byte) []byte {
	sum := make([]byte, 4)
	binary.BigEndian.PutUint32(sum, crc32.ChecksumIEEE(payload))
	return []byte(fmt.Sprintf("%x\r\n%s\r\n0\r\nx-amz-checksum-crc32:%s\r\n\r\n", len(payload), payload, base64.StdEncoding.EncodeToString(sum)))
}

func putChunked(g *gwtest.GW, target string, payload []byte, declared int) *gwtest.Resp {
	return g.Do(gwtest.Req{Method: "PUT", Target: target, Cred: g.RootC, Body: chunked(payload),
		Payload: "STREAMING-UNSIGNED-PAYLOAD-TRAILER",
		Header: map[string]string{
			"Content-Encoding":             "aws-chunked",
			"X-Amz-Trailer":                "x-amz-checksum-crc32",
			"X-Amz-Decoded-Content-Length": fmt.Sprint(declared),
		}})
}

// An aws-chunked upload that declares 100 decoded bytes but delivers 10 must fail and leave the key absent;
// it was acknowledged and stored as 100 bytes (10 received + 90 preallocated zero bytes).
func TestShortChunkedBodyIsRefused(t *testing.T) {
	g := gwtest.Start(t, gwtest.Options{})
	g.MustStatus(g.Put(g.RootC, "/bkt", nil, nil), 200, "create bucket")
	payload := []byte("0123456789")
	// sanity: the true length is accepted and read back exactly
	g.MustStatus(putChunked(g, "/bkt/exact", payload, len(payload)), 200, "chunked upload with the true decoded length")
	if r := g.Get(g.RootC, "/bkt/exact", nil); r.Status != 200 || string(r.Body) != string(payload) {
		t.Fatalf("exact upload reads back %v", r)
	}
	r := putChunked(g, "/bkt/short", payload, 100)
	if r.Err != nil {
		t.Fatalf("no answer: %v", r.Err)
	}
	h := g.Get(g.RootC, "/bkt/short", nil)
	if r.Status/100 == 2 {
		t.Errorf("upload declaring 100 decoded bytes with 10 delivered was acknowledged: %v; the key now holds %d bytes", r.Status, len(h.Body))
	}
	if h.Status != 404 {
		t.Errorf("after the refused upload the key exists (GET %d, %d bytes)", h.Status, len(h.Body))
	}
}

// Same for UploadPart.
func TestShortChunkedPartIsRefused(t *testing.T) {
	g := gwtest.Start(t, gwtest.Options{})
	g.MustStatus(g.Put(g.RootC, "/bkt", nil, nil), 200, "create bucket")
	c := g.Post(g.RootC, "/bkt/mp?uploads", nil, nil)
	g.MustStatus(c, 200, "create multipart upload")
	var id string
	if i := indexOf(string(c.Body), "<UploadId>"); i >= 0 {
		rest := string(c.Body)[i+len("<UploadId>"):]
		id = rest[:indexOf(rest, "</UploadId>")]
	}
	if id == "" {
		t.Fatalf("no upload id in %s", c.Body)
	}
	r := putChunked(g, "/bkt/mp?partNumber=1&uploadId="+id, []byte("0123456789"), 100)
	if r.Err != nil {
		t.Fatalf("no answer: %v", r.Err)
	}
	if r.Status/100 == 2 {
		t.Errorf("part declaring 100 decoded bytes with 10 delivered was acknowledged: %v", r.Status)
	}
}

func indexOf(s, sub string) int {
	for i := 0; i+len(sub) <= len(s); i++ {
		if s[i:i+len(sub)] == sub {
			return i
		}
	}
	return -1
}
