#!/usr/bin/env python3
"""Generates /repo/s3api/controllers/zz_contracts_verif.go from the operation table below.

The table is written from the S3 API action list and the property statements (DESIGN.md appendix C),
NOT from what the controllers currently pass: code that disagrees with it fails an obligation.
Columns: handler, backend method, bucket expr, object expr, action(s), ACL permission, mutating,
replaces/removes content."""
import sys, re

R, W, RA, WA = "auth.PermissionRead", "auth.PermissionWrite", "auth.PermissionReadAcp", "auth.PermissionWriteAcp"
IB, IK = "*$1.Bucket", "*$1.Key"   # input struct (pointer or value) with Bucket / Key fields
# (handler, method, bucket, object, action, perm, mutating, content)
T = [
 ("GetActions","GetObjectTagging","$1","$2","GetObjectTaggingAction",R,0,0),
 ("GetActions","GetObjectRetention","$1","$2","GetObjectRetentionAction",R,0,0),
 ("GetActions","GetObjectLegalHold","$1","$2","GetObjectLegalHoldAction",R,0,0),
 ("GetActions","ListParts",IB,IK,"ListMultipartUploadPartsAction",R,0,0),
 ("GetActions","GetObjectAcl",IB,IK,"GetObjectAclAction",RA,0,0),
 ("GetActions","GetObjectAttributes",IB,IK,"GetObjectAttributesAction",R,0,0),
 ("GetActions","GetObject",IB,IK,"VERSIONED:GetObjectAction:GetObjectVersionAction",R,0,0),
 ("HeadObject","HeadObject",IB,IK,"VERSIONED:GetObjectAction:GetObjectVersionAction",R,0,0),
 ("HeadBucket","HeadBucket",IB,'""',"ListBucketAction",R,0,0),
 ("ListActions","GetBucketTagging","$1",'""',"GetBucketTaggingAction",R,0,0),
 ("ListActions","GetBucketOwnershipControls","$1",'""',"GetBucketOwnershipControlsAction",R,0,0),
 ("ListActions","GetBucketVersioning","$1",'""',"GetBucketVersioningAction",R,0,0),
 ("ListActions","GetBucketPolicy","$1",'""',"GetBucketPolicyAction",R,0,0),
 ("ListActions","GetBucketCors","$1",'""',"GetBucketCorsAction",R,0,0),
 ("ListActions","ListObjectVersions",IB,'""',"ListBucketVersionsAction",R,0,0),
 ("ListActions","GetObjectLockConfiguration","$1",'""',"GetBucketObjectLockConfigurationAction",R,0,0),
 ("ListActions","GetBucketAcl",IB,'""',"GetBucketAclAction",RA,0,0),
 ("ListActions","ListMultipartUploads",IB,'""',"ListBucketMultipartUploadsAction",R,0,0),
 ("ListActions","ListObjectsV2",IB,'""',"ListBucketAction",R,0,0),
 ("ListActions","ListObjects",IB,'""',"ListBucketAction",R,0,0),
 ("PutBucketActions","PutBucketTagging","$1",'""',"PutBucketTaggingAction",W,1,0),
 ("PutBucketActions","PutBucketOwnershipControls","$1",'""',"PutBucketOwnershipControlsAction",W,1,0),
 ("PutBucketActions","PutBucketVersioning","$1",'""',"PutBucketVersioningAction",W,1,0),
 ("PutBucketActions","PutObjectLockConfiguration","$1",'""',"PutBucketObjectLockConfigurationAction",W,1,0),
 ("PutBucketActions","PutBucketCors","bucket",'""',"PutBucketCorsAction",W,1,0),
 # S3: a bucket policy can be written only by the bucket owner (or under a policy that allows it); no ACL permission
 # confers it. The nearest ACL permission of the gateway is WRITE_ACP (who may rewrite the ACL has the owner's power
 # anyway). The controllers asked for WRITE until the repair recorded in known_findings.json.
 ("PutBucketActions","PutBucketPolicy","$1",'""',"PutBucketPolicyAction",WA,1,0),
 ("PutBucketActions","PutBucketAcl","$1",'""',"PutBucketAclAction",WA,1,0),
 ("PutBucketActions","CreateBucket",None,None,None,None,1,0),
 ("PutActions","PutObjectTagging","$1","$2","PutObjectTaggingAction",W,1,0),
 ("PutActions","PutObjectRetention","$1","$2","PutObjectRetentionAction",W,1,0),
 ("PutActions","PutObjectLegalHold","$1","$2","PutObjectLegalHoldAction",W,1,0),
 ("PutActions","UploadPartCopy",IB,IK,"PutObjectAction",W,1,0),
 ("PutActions","UploadPart",IB,IK,"PutObjectAction",W,1,0),
 ("PutActions","PutObjectAcl",IB,IK,"PutObjectAclAction",WA,1,0),
 ("PutActions","CopyObject",IB,IK,"PutObjectAction",W,1,1),
 ("PutActions","PutObject",IB,IK,"PutObjectAction",W,1,1),
 ("DeleteBucket","DeleteBucketTagging","$1",'""',"PutBucketTaggingAction",W,1,0),
 ("DeleteBucket","DeleteBucketOwnershipControls","$1",'""',"PutBucketOwnershipControlsAction",W,1,0),
 ("DeleteBucket","DeleteBucketPolicy","$1",'""',"DeleteBucketPolicyAction",WA,1,0),
 ("DeleteBucket","DeleteBucketCors","$1",'""',"PutBucketCorsAction",W,1,0),
 ("DeleteBucket","DeleteBucket","$1",'""',"DeleteBucketAction",W,1,0),
 ("DeleteObjects","DeleteObjects",IB,"EACH","DeleteObjectAction",W,1,1),
 ("DeleteActions","DeleteObjectTagging","$1","$2","DeleteObjectTaggingAction",W,1,0),
 ("DeleteActions","AbortMultipartUpload",IB,IK,"AbortMultipartUploadAction",W,1,0),
 ("DeleteActions","DeleteObject",IB,IK,"DeleteObjectAction",W,1,1),
 ("CreateActions","RestoreObject",IB,IK,"RestoreObjectAction",W,1,0),
 ("CreateActions","SelectObjectContent",IB,IK,"GetObjectAction",R,0,0),
 # the lock decision for CompleteMultipartUpload is taken by the backend itself (posix contract), not in the handler
 ("CreateActions","CompleteMultipartUpload",IB,IK,"PutObjectAction",W,1,0),
 ("CreateActions","CreateMultipartUpload",IB,IK,"PutObjectAction",W,1,0),
]

HDR = '''//go:build verif

// GENERATED by /verif/contracts/gen_controllers.py — do not edit by hand.
// Contracts for package controllers, read by /verif/govc. Comments only; compiled only with tag "verif".
//
// Call-site obligations ("decision precedes effect"): before every call into the backend the handler
// must have obtained, from auth.VerifyAccess, the decision for exactly the account, bucket, object,
// S3 action and ACL permission that the S3 API assigns to that backend operation (C03); every mutating
// backend call requires the read-only switch to be off (C15).
package controllers

'''

def granted(b, o, action, perm):
    return f'granted($recv, acl, acct, isRoot, {b}, {o}, auth.{action}, {perm})'

C02_BODYLESS = ["PutObjectTagging", "PutObjectRetention", "PutObjectLegalHold", "PutObjectAcl", "CopyObject", "UploadPartCopy", "GetBucketPolicy"]

PUT_BUCKET_OPS = ["CreateBucket","PutBucketTagging","PutBucketOwnershipControls","PutBucketVersioning","PutObjectLockConfiguration","PutBucketCors","PutBucketPolicy","PutBucketAcl"]
EXTRA = {
 "PutBucketActions": [
  # C02: this handler never reads the body, so no request it serves may have its signature check deferred. That only
  # requests without a key part reach it is the router's doing (assumed, s3api/router.go "/:bucket").
  '//@   requires {C02} [bucket-level-route] keyPart(ctx.Path()) == ""',
 ] + [f'//@   at-call? backend.Backend.{m} {{C02}} [not-deferred-{m}] requires !utils.IsBigDataAction(ctx)' for m in PUT_BUCKET_OPS] + [
  '//@   at-call backend.Backend.CreateBucket {C16} [only-valid-names-are-created] requires utils.IsValidBucketName(*$1.Bucket, c.debug)',
  '//@   at-call backend.Backend.PutBucketPolicy {C14} [only-validated-documents-are-stored] requires auth.ValidatePolicyDocument($2, $1, c.iam) == nil',
 ],
 "PutActions": [
  '//@   requires {C02} [auth-middleware-installed-the-body-reader] utils.IsBigDataAction(ctx) ==> ctx.Locals("body-reader") != nil',
 ] + [f'//@   at-call backend.Backend.{m} {{C02}} [not-deferred-{m}] requires !utils.IsBigDataAction(ctx)' for m in C02_BODYLESS] + [
  '//@   at-call backend.Backend.PutObject {C02} [body-reader-handed-to-backend] requires utils.IsBigDataAction(ctx) ==> $1.Body == ctx.Locals("body-reader")',
  # C03: tags sent with the object are written like PutObjectTagging writes them and need that action as well
  '//@   at-call backend.Backend.PutObject {C03} [tags-with-the-object-need-the-tagging-action] requires ($1.Tagging != nil && *$1.Tagging != "") ==> granted($recv, acl, acct, isRoot, *$1.Bucket, *$1.Key, auth.PutObjectTaggingAction, auth.PermissionWrite)',
  '//@   at-call backend.Backend.UploadPart {C02} [body-reader-handed-to-backend-part] requires utils.IsBigDataAction(ctx) ==> $1.Body == ctx.Locals("body-reader")',
  # C06: the length handed to the backend is the decoded length when the client declared one (the middleware then decodes the
  # body), otherwise the Content-Length (absent = 0) — whatever else the request carries
  '//@   let declaredTxt = ite(ctx.Get("X-Amz-Decoded-Content-Length") != "", ctx.Get("X-Amz-Decoded-Content-Length"), ite(ctx.Get("Content-Length") == "", "0", ctx.Get("Content-Length")))',
  '//@   at-call backend.Backend.PutObject {C06} [declared-length-handed-to-backend] requires $1.ContentLength != nil && *$1.ContentLength == strconv.ParseInt(declaredTxt, 10, 64).0',
  '//@   at-call backend.Backend.UploadPart {C06} [declared-length-handed-to-backend-part] requires $1.ContentLength != nil && *$1.ContentLength == strconv.ParseInt(declaredTxt, 10, 64).0',
 ],
 "GetActions": [
  '// C18: the attributes the client asked for are part of the request the backend is handed (the list is there, and only they are in it)',
  '//@   at-call backend.Backend.GetObjectAttributes {C18} [the-attributes-asked-for-are-handed-on] requires called("utils.ParseObjectAttributes") && $1.ObjectAttributes == objAttrs',
  '//@   at-call builtin.append[types.ObjectAttributes] {C18} [only-attributes-asked-for-are-handed-on] requires len($1) == 1 && in($1[0], attrs)',
  '//@   at-call controllers.SendResponse {C13} [status-206-iff-content-range] when $1 == nil && $2.Action == metrics.ActionGetObject :: requires ($2.Status == 206) <==> (res.ContentRange != nil && *res.ContentRange != "")',
  '//@   at-call utils.StreamResponseBody {C13} [body-and-length-forwarded] requires $1 == res.Body && res.ContentLength != nil ==> $2 == *res.ContentLength',
  '// every header added to a response header list whose name is Content-Range (in whatever casing) carries the value the backend',
  '// computed for the bytes it serves',
  '//@   let got = result("backend.Backend.GetObject", 0)',
  '//@   at-call builtin.append[utils.CustomHeader] {C13} [a-content-range-header-is-the-backends] requires forall j int :: 0 <= j && j < len($1) && strings.ToLower($1[j].Key) == "content-range" ==> \\',
  '//@        called("backend.Backend.GetObject") && got.ContentRange != nil && $1[j].Value == *got.ContentRange',
 ],
}

HELPERS = '''
// Small helpers used by the handlers (their contracts are proved on their bodies).
//@ func getstring
//@   frame none
//@   ensures {C13,C01,C19} [nil-is-empty] s == nil ==> ret0 == ""
//@   ensures {C13,C01,C19} [deref] s != nil ==> ret0 == *s
//@ func getint64
//@   frame none
//@   ensures {C13,C01,C19} [nil-is-zero] i == nil ==> ret0 == 0
//@   ensures {C13,C01,C19} [deref] i != nil ==> ret0 == *i
'''

# C19: operation (identified by the metrics action the handler reports) -> event type of the S3 API
EVENTS = [
 ("PutActions", "ActionPutObject", "EventObjectCreatedPut"),
 ("PutActions", "ActionCopyObject", "EventObjectCreatedCopy"),
 ("PutActions", "ActionPutObjectTagging", "EventObjectTaggingPut"),
 ("PutActions", "ActionPutObjectAcl", "EventObjectAclPut"),
 ("CreateActions", "ActionCompleteMultipartUpload", "EventCompleteMultipartUpload"),
 ("CreateActions", "ActionRestoreObject", "EventObjectRestoreCompleted"),
 ("DeleteActions", "ActionDeleteObject", "EventObjectRemovedDelete"),
 ("DeleteActions", "ActionDeleteObjectTagging", "EventObjectTaggingDelete"),
 ("DeleteObjects", "ActionDeleteObjects", "EventObjectRemovedDeleteObjects"),
]

RESPONSE = '''
// ---- C19: events are emitted by the response helpers, on success only, at most once, never
// followed by an error status, and carry the fields the handler supplied.
//@ func SendResponse
//@   requires {C20} [options-present] l != nil
//@   requires {C19} [success-status-is-not-an-error] err == nil ==> l != nil && l.Status < 400
//@   at-call s3event.S3EventSender.SendEvent {C19} [only-on-success] requires err == nil
//@   at-call s3event.S3EventSender.SendEvent {C19} [at-most-once] requires !called("s3event.S3EventSender.SendEvent")
//@   at-call s3event.S3EventSender.SendEvent {C19} [fields-forwarded] requires $1.ObjectSize == l.ObjectSize && $1.ObjectETag == l.ObjectETag \\
//@        && $1.EventName == l.EventName && $1.VersionId == l.VersionId && $1.BucketOwner == l.BucketOwner
//@   at-call fiber.Ctx.Status {C19} [no-error-status-after-event] requires called("s3event.S3EventSender.SendEvent") ==> $1 < 400
//@ func SendXMLResponse
//@   requires {C20} [options-present] l != nil
//@   requires {C19} [success-status-is-not-an-error] err == nil ==> l != nil && l.Status < 400
//@   at-call s3event.S3EventSender.SendEvent {C19} [only-on-success] requires err == nil
//@   at-call s3event.S3EventSender.SendEvent {C19} [at-most-once] requires !called("s3event.S3EventSender.SendEvent")
//@   at-call s3event.S3EventSender.SendEvent {C19} [fields-forwarded] requires $1.ObjectSize == l.ObjectSize && $1.ObjectETag == l.ObjectETag \\
//@        && $1.EventName == l.EventName && $1.VersionId == l.VersionId && $1.BucketOwner == l.BucketOwner
//@   at-call fiber.Ctx.Status {C19} [no-error-status-after-event] requires called("s3event.S3EventSender.SendEvent") ==> $1 < 400
'''

def handler_bodies():
    src = open('/repo/s3api/controllers/base.go').read()
    parts = re.split(r'\nfunc \(c S3ApiController\) (\w+)\(', src)
    return {parts[i]: parts[i+1] for i in range(1, len(parts)-1, 2)}

def main():
    bodies = handler_bodies()
    out = [HDR.rstrip("\n") + "\n" + HELPERS + RESPONSE]
    handlers = []
    for row in T:
        if row[0] not in handlers: handlers.append(row[0])
    for h in handlers:
        out.append(f'//@ func (S3ApiController) {h}')
        out.append('//@   requires {C20} [controller-has-a-backend] c.be != nil')
        out.append('//@   let acct = as(ctx.Locals("account"), auth.Account)')
        out.append('//@   let isRoot = as(ctx.Locals("isRoot"), bool)')
        out.append('//@   let acl = as(ctx.Locals("parsedAcl"), auth.ACL)')
        if h == "DeleteObjects":
            out.append('//@   loop 1 invariant {C03} [each-key-decided] -1 <= rangeindex && rangeindex < len(dObj.Objects) && (forall j int :: 0 <= j && j <= rangeindex ==> ' + granted('bucket', '*dObj.Objects[j].Key', 'DeleteObjectAction', W).replace('$recv','c.be') + ')')
        if h == "DeleteObjects":
            out.append('//@   loop 1 invariant {C15} [writable-once-decided] rangeindex >= 0 ==> !c.readonly')
            out.append('//@   loop 1 invariant {C04} [each-key-opaque] -1 <= rangeindex && rangeindex < len(dObj.Objects) && (forall j int :: 0 <= j && j <= rangeindex ==> *dObj.Objects[j].Key != "" && !backend.HasDotSegment(*dObj.Objects[j].Key) && !backend.HasEmptySegment(*dObj.Objects[j].Key) && backend.IsPathComponent(backend.GetStringFromPtr(dObj.Objects[j].VersionId)))')
            out.append('//@   at-call backend.Backend.DeleteObjects {C04} [keys-are-opaque-names] requires forall i int :: 0 <= i && i < len($1.Delete.Objects) ==> *$1.Delete.Objects[i].Key != "" && !backend.HasDotSegment(*$1.Delete.Objects[i].Key) && !backend.HasEmptySegment(*$1.Delete.Objects[i].Key) && backend.IsPathComponent(backend.GetStringFromPtr($1.Delete.Objects[i].VersionId))')
        for (hh, m, b, o, action, perm, mut, content) in T:
            if hh != h: continue
            pat = f'backend.Backend.{m}'
            if action is not None:
                if o == "EACH":
                    e = f'forall i int :: 0 <= i && i < len($1.Delete.Objects) ==> ' + granted(b, '*$1.Delete.Objects[i].Key', action, perm)
                elif action.startswith("VERSIONED:"):
                    _, a0, a1 = action.split(":")
                    e = f'(*$1.VersionId == "" ==> {granted(b,o,a0,perm)}) && (*$1.VersionId != "" ==> {granted(b,o,a1,perm)})'
                else:
                    e = granted(b, o, action, perm)
                out.append(f'//@   at-call {pat} {{C03}} [access-{m}] requires {e}')
                if m in ("CopyObject", "UploadPartCopy"):
                    out.append(f'//@   at-call {pat} {{C03}} [source-access-{m}] requires copySourceGranted($recv, acct, isRoot, *$1.CopySource)')
            if content:
                # C10: the lock decision for exactly this object (version) precedes every call that replaces
                # or removes object content; the bypass flag is whatever the caller sent (CheckObjectAccess
                # itself verifies the bypass permission)
                if m == "DeleteObjects":
                    out.append(f'//@   at-call {pat} {{C10}} [lock-{m}] requires forall i int :: 0 <= i && i < len($1.Delete.Objects) ==> (exists bp bool :: lockOK($recv, *$1.Bucket, acct.Access, ite($1.Delete.Objects[i].Key == nil, "", *$1.Delete.Objects[i].Key), ite($1.Delete.Objects[i].VersionId == nil, "", *$1.Delete.Objects[i].VersionId), bp))')
                elif m == "DeleteObject":
                    out.append(f'//@   at-call {pat} {{C10}} [lock-{m}] requires exists bp bool :: lockOK($recv, *$1.Bucket, acct.Access, *$1.Key, ite($1.VersionId == nil, "", *$1.VersionId), bp)')
                else:
                    out.append(f'//@   at-call {pat} {{C10}} [lock-{m}] requires exists bp bool :: lockOK($recv, *$1.Bucket, acct.Access, *$1.Key, "", bp)')
            if m == "CreateBucket":
                # the read-only gate for bucket creation sits in the AclParser middleware (contract there);
                # here: the handler reaches CreateBucket only for requests of the shape that gate refuses
                q = "ctx.Request().URI().QueryArgs()"
                shape = " && ".join(f'!{q}.Has("{x}")' for x in ["acl","tagging","versioning","policy","object-lock","ownershipControls","cors"])
                out.append(f'//@   at-call {pat} {{C15}} [create-shape-or-writable] requires !c.readonly || ({shape})')
            elif mut:
                out.append(f'//@   at-call {pat} {{C15}} [readonly-{m}] requires !c.readonly')
        for l in EXTRA.get(h, []):
            out.append(l)
        for (hh, act, ev) in EVENTS:
            if hh != h: continue
            out.append(f'//@   at-call controllers.SendResponse {{C19}} [event-{act}] when $1 == nil && $2.Action == metrics.{act} :: requires $2.EvSender == c.evSender && $2.EventName == s3event.{ev}')
            if "SendXMLResponse(" in bodies.get(h, ""):
              out.append(f'//@   at-call controllers.SendXMLResponse {{C19}} [event-xml-{act}] when $2 == nil && $3.Action == metrics.{act} :: requires $3.EvSender == c.evSender && $3.EventName == s3event.{ev}')
        out.append('')
    # C04: admin parameters — the bucket of change-bucket-owner is a bucket name (no separators, no dot segments)
    out.append('// ---- C04: the admin API hands the backend a bucket name, never a path')
    out.append('//@ func (AdminController) ChangeBucketOwner')
    out.append('//@   at-call backend.Backend.ChangeBucketOwner {C04} [the-bucket-parameter-is-a-valid-bucket-name] requires utils.IsValidBucketName($1, false)')
    out.append('')
    open('/repo/s3api/controllers/zz_contracts_verif.go', 'w').write('\n'.join(out).rstrip('\n') + '\n')

main()
