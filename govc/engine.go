package main

// Engine: loading, contract resolution, query construction.

import (
	"fmt"
	"go/ast"
	"go/constant"
	"go/token"
	"go/types"
	"os"
	"path/filepath"
	"regexp"
	"sort"
	"strings"
	"sync"

	"golang.org/x/tools/go/packages"
	"golang.org/x/tools/go/ssa"
	"golang.org/x/tools/go/ssa/ssautil"
)

type Engine struct {
	repo          string
	prog          *ssa.Program
	pkgs          []*packages.Package
	spkgs         []*ssa.Package
	cs            *Contracts
	byKey         map[string]*FuncContract
	trusted       []string // every trusted spec line (for evidence)
	tpkgs         []*types.Package
	fnByKey       map[string]*ssa.Function
	loadSecs      float64
	initOnce      sync.Once
	inits         map[*types.Var]constant.Value
	initCalls     map[*types.Var]*initCall
	contractFiles []string
}

var repoPatterns = []string{
	"./auth", "./backend", "./backend/posix", "./backend/meta", "./backend/s3proxy",
	"./s3api", "./s3api/controllers", "./s3api/middlewares", "./s3api/utils",
	"./s3event", "./s3err", "./s3response", "./metrics", "./s3log",
}

func loadEngine(repo, specDir string) (*Engine, error) {
	cfg := &packages.Config{
		Mode: packages.NeedName | packages.NeedFiles | packages.NeedCompiledGoFiles | packages.NeedImports |
			packages.NeedTypes | packages.NeedTypesSizes | packages.NeedSyntax | packages.NeedTypesInfo,
		Dir:        repo,
		BuildFlags: []string{"-tags=verif"},
		Env:        append(os.Environ(), "GOFLAGS=-mod=mod", "GOPROXY=off", "GOSUMDB=off", "GOTOOLCHAIN=local"),
	}
	pkgs, err := packages.Load(cfg, repoPatterns...)
	if err != nil {
		return nil, err
	}
	for _, p := range pkgs {
		for _, e := range p.Errors {
			return nil, fmt.Errorf("package %s: %v", p.PkgPath, e)
		}
	}
	prog, spkgs := ssautil.Packages(pkgs, ssa.GlobalDebug)
	prog.Build()
	eng := &Engine{repo: repo, prog: prog, pkgs: pkgs, spkgs: spkgs, cs: newContracts(), byKey: map[string]*FuncContract{}, fnByKey: map[string]*ssa.Function{}}
	// all type packages reachable
	seen := map[*types.Package]bool{}
	var visit func(p *types.Package)
	visit = func(p *types.Package) {
		if p == nil || seen[p] {
			return
		}
		seen[p] = true
		eng.tpkgs = append(eng.tpkgs, p)
		for _, q := range p.Imports() {
			visit(q)
		}
	}
	for _, p := range pkgs {
		visit(p.Types)
	}
	sort.Slice(eng.tpkgs, func(i, j int) bool { return eng.tpkgs[i].Path() < eng.tpkgs[j].Path() })
	// contracts in the repo
	for _, p := range pkgs {
		for _, f := range p.CompiledGoFiles {
			if b := filepath.Base(f); strings.HasPrefix(b, "zz_contracts") && strings.HasSuffix(b, "_verif.go") {
				if err := eng.cs.loadGoFile(f, p.PkgPath); err != nil {
					return nil, err
				}
				eng.contractFiles = append(eng.contractFiles, f)
			}
		}
	}
	tr, err := eng.cs.loadSpecDir(specDir)
	if err != nil {
		return nil, err
	}
	eng.trusted = tr
	// index functions
	for fn := range ssautil.AllFunctions(prog) {
		eng.fnByKey[fn.String()] = fn
	}
	for _, fc := range eng.cs.Funcs {
		for _, k := range fc.keys() {
			if old, ok := eng.byKey[k]; ok && old != fc {
				// merge blocks for the same function
				old.Clauses = append(old.Clauses, fc.Clauses...)
				old.Pure = old.Pure || fc.Pure
				old.NoHavoc = old.NoHavoc || fc.NoHavoc
				old.PreservesArgs = old.PreservesArgs || fc.PreservesArgs
				old.ArithAssumed = old.ArithAssumed || fc.ArithAssumed
				old.Modifies = append(old.Modifies, fc.Modifies...)
				old.Inline = old.Inline || fc.Inline
				continue
			}
			eng.byKey[k] = fc
		}
	}
	return eng, nil
}

func (fc *FuncContract) keys() []string {
	if fc.Iface {
		n := fc.Name
		if fc.PkgPath != "" && !strings.Contains(n, "/") && strings.Count(n, ".") == 1 {
			n = fc.PkgPath + "." + n
		}
		return []string{"iface:" + n}
	}
	name := fc.Name
	recv := fc.Recv
	if fc.PkgPath != "" {
		if recv != "" && !strings.Contains(recv, ".") {
			recv = fc.PkgPath + "." + recv
		}
		if recv == "" && !strings.Contains(name, ".") {
			name = fc.PkgPath + "." + name
		} else if recv == "" && strings.Contains(name, "$") && !strings.Contains(name, "/") {
			// closure of a method: (Recv).Method$1 written as Recv.Method$1
			name = fc.PkgPath + "." + name
		}
	}
	if recv != "" {
		return []string{"(" + recv + ")." + name, "(*" + recv + ")." + name}
	}
	return []string{name}
}

// globalInit: package-level variables declared with a constant initialiser (var X = "lit"); the value
// is used for the variable under the standing assumption that package-level variables are not reassigned.
func (eng *Engine) globalInit(v *types.Var) (constant.Value, bool) {
	eng.initOnce.Do(func() {
		eng.inits = map[*types.Var]constant.Value{}
		eng.initCalls = map[*types.Var]*initCall{}
		for _, p := range eng.pkgs {
			for _, f := range p.Syntax {
				for _, d := range f.Decls {
					gd, ok := d.(*ast.GenDecl)
					if !ok || gd.Tok != token.VAR {
						continue
					}
					for _, sp := range gd.Specs {
						vs, ok := sp.(*ast.ValueSpec)
						if !ok || len(vs.Values) != len(vs.Names) {
							continue
						}
						for i, n := range vs.Names {
							obj, _ := p.TypesInfo.Defs[n].(*types.Var)
							if obj == nil {
								continue
							}
							if tv, ok := p.TypesInfo.Types[vs.Values[i]]; ok && tv.Value != nil {
								eng.inits[obj] = tv.Value
								continue
							}
							// var X = pkg.Func(constants...): remembered as a call; usable when Func is pure
							if ce, ok := vs.Values[i].(*ast.CallExpr); ok {
								var fobj *types.Func
								switch fx := ce.Fun.(type) {
								case *ast.Ident:
									fobj, _ = p.TypesInfo.Uses[fx].(*types.Func)
								case *ast.SelectorExpr:
									fobj, _ = p.TypesInfo.Uses[fx.Sel].(*types.Func)
								}
								if fobj == nil {
									continue
								}
								var cargs []constant.Value
								var ctys []types.Type
								okc := true
								for _, a := range ce.Args {
									tv, ok := p.TypesInfo.Types[a]
									if !ok || tv.Value == nil {
										okc = false
										break
									}
									cargs = append(cargs, tv.Value)
									ctys = append(ctys, tv.Type)
								}
								if okc {
									eng.initCalls[obj] = &initCall{fn: fobj, args: cargs, tys: ctys}
								}
							}
						}
					}
				}
			}
		}
	})
	c, ok := eng.inits[v]
	return c, ok
}

type initCall struct {
	fn   *types.Func
	args []constant.Value
	tys  []types.Type
}

func (eng *Engine) globalInitCall(v *types.Var) *initCall {
	eng.globalInit(v)
	return eng.initCalls[v]
}

func (eng *Engine) contractByKey(k string) *FuncContract { return eng.byKey[k] }

func (eng *Engine) contractOf(fn *ssa.Function) *FuncContract {
	k := fn.String()
	if fc, ok := eng.byKey[k]; ok {
		return fc
	}
	// closures of methods print as pkg.(*T).M$1 or (*pkg.T).M$1 depending on version: try normalised
	if fn.Parent() != nil {
		par := fn.Parent()
		suffix := strings.TrimPrefix(fn.Name(), par.Name())
		if fc, ok := eng.byKey[par.String()+suffix]; ok {
			return fc
		}
	}
	return nil
}

func (eng *Engine) allTypesPkgs() []*types.Package { return eng.tpkgs }

// lookupPure resolves "pkg.Func" (or "Func" in pkg) to a function carrying a `pure` contract.
func (eng *Engine) lookupPure(name string, pkg *types.Package) *ssa.Function {
	var cands []*types.Package
	fname := name
	if i := strings.Index(name, "."); i > 0 {
		for _, p := range eng.tpkgs {
			if p.Name() == name[:i] {
				cands = append(cands, p)
			}
		}
		fname = name[i+1:]
	} else if pkg != nil {
		cands = []*types.Package{pkg}
	}
	for _, p := range cands {
		if obj, ok := p.Scope().Lookup(fname).(*types.Func); ok {
			fn := eng.prog.FuncValue(obj)
			if fn == nil {
				continue
			}
			if fc := eng.contractOf(fn); fc != nil && fc.Pure {
				return fn
			}
		}
	}
	return nil
}

func (eng *Engine) isRepoFn(fn *ssa.Function) bool {
	return fn != nil && fn.Pkg != nil && strings.HasPrefix(fn.Pkg.Pkg.Path(), "github.com/versity/versitygw") && len(fn.Blocks) > 0
}

// inlinable: small, loop-free, contract-less function of the repo.
func (eng *Engine) inlinable(fn *ssa.Function) bool {
	return false
}

func (e *FEnc) inline(st *State, in ssa.Instruction, fn *ssa.Function, args []*Val, resTy types.Type) (*Val, bool) {
	return nil, false
}

// findFunc resolves a user-supplied name (as in contract headers) to an SSA function.
func (eng *Engine) findFunc(fc *FuncContract) *ssa.Function {
	for _, k := range fc.keys() {
		if fn, ok := eng.fnByKey[k]; ok {
			return fn
		}
	}
	// closures: "pkg.Outer$1" or "(pkg.T).M$1"
	for _, k := range fc.keys() {
		for key, fn := range eng.fnByKey {
			if fn.Parent() != nil {
				par := fn.Parent()
				suffix := strings.TrimPrefix(fn.Name(), par.Name())
				if par.String()+suffix == k {
					_ = key
					return fn
				}
			}
		}
	}
	return nil
}

func (eng *Engine) newFEnc(fn *ssa.Function, prop string) *FEnc {
	e := &FEnc{eng: eng, fn: fn, d: newDecls(), vals: map[ssa.Value]*Val{}, allocOf: map[*ssa.Alloc]int{},
		factDone: map[string]bool{}, loops: map[*ssa.BasicBlock]*loopInfo{}, domDepth: map[*ssa.BasicBlock]int{},
		epochPreds: map[int][]epochEdge{}, epochKeep: map[int]epochKeep{}, epochRefs: map[int][]keepRef{}, heapSorts: map[string]string{}, heapDeclared: map[string]bool{},
		safetyCount: map[string]int{}, usedGhost: map[string]bool{}, prop: prop, prune: true,
		parts: map[string]*Obligation{}, atCallHits: map[*Clause]int{}, calleesUsed: map[string]*FuncContract{}, rangeGhost: map[*ssa.Range]int{}, catParts: map[string][]string{}, catCache: map[string]string{}}
	if fn != nil {
		e.fc = eng.contractOf(fn)
	}
	return e
}

// ---------- query text ----------

func (e *FEnc) ghostDecls() ([]string, error) {
	if e.ghostDone {
		return e.ghostText, e.ghostErr
	}
	e.noFacts = true
	out, err := e.ghostDecls0()
	e.noFacts = false
	e.ghostDone, e.ghostText, e.ghostErr = true, out, err
	return out, err
}

func (e *FEnc) ghostDecls0() ([]string, error) {
	// close usedGhost under dependencies by evaluating bodies
	type gdef struct {
		name string
		text string
		deps map[string]bool
		rec  bool
	}
	defs := map[string]*gdef{}
	var order []string
	var build func(name string) error
	build = func(name string) error {
		if _, ok := defs[name]; ok {
			return nil
		}
		g := e.eng.cs.Ghosts[name]
		gd := &gdef{name: name, deps: map[string]bool{}}
		defs[name] = gd
		env := &Env{fe: e, vars: map[string]*Val{}, bound: map[string]*Val{}, pkg: e.eng.pkgByPath(g.PkgPath)}
		var ps []string
		for _, p := range g.Params {
			s, ty, err := e.sortOfName(env, p.Type)
			if err != nil {
				return fmt.Errorf("ghost %s: %v", name, err)
			}
			env.vars[p.Name] = &Val{Ty: ty, Sort: s, T: "|" + p.Name + "|"}
			ps = append(ps, fmt.Sprintf("(|%s| %s)", p.Name, s))
		}
		rs, _, err := e.sortOfName(env, g.Ret)
		if err != nil {
			return fmt.Errorf("ghost %s: %v", name, err)
		}
		if g.Body == nil {
			var ss []string
			for _, p := range g.Params {
				s, _, _ := e.sortOfName(env, p.Type)
				ss = append(ss, s)
			}
			gd.text = fmt.Sprintf("(declare-fun g_%s (%s) %s)", name, strings.Join(ss, " "), rs)
			order = append(order, name)
			return nil
		}
		before := map[string]bool{}
		for k := range e.usedGhost {
			before[k] = true
		}
		saved := e.usedGhost
		e.usedGhost = map[string]bool{}
		body, err := e.eval(env, g.Body)
		used := e.usedGhost
		e.usedGhost = saved
		if err != nil {
			return fmt.Errorf("ghost %s: %v", name, err)
		}
		if body.Sort != rs {
			return fmt.Errorf("ghost %s: body has sort %s, declared %s", name, body.Sort, rs)
		}
		for _, k := range sortedKeys(used) {
			e.usedGhost[k] = true
			if k == name {
				gd.rec = true
				continue
			}
			gd.deps[k] = true
			if err := build(k); err != nil {
				return err
			}
		}
		kw := "define-fun"
		if gd.rec {
			kw = "define-fun-rec"
		}
		gd.text = fmt.Sprintf("(%s g_%s (%s) %s %s)", kw, name, strings.Join(ps, " "), rs, e.term(body))
		order = append(order, name)
		return nil
	}
	for _, n := range sortedKeys(e.usedGhost) {
		if err := build(n); err != nil {
			return nil, err
		}
	}
	var out []string
	for _, n := range order {
		out = append(out, defs[n].text)
	}
	// axioms and proved lemmas mentioning used ghosts
	mentions := func(s string) bool {
		for n := range defs {
			if strings.Contains(s, "g_"+n+" ") || strings.Contains(s, "g_"+n+")") {
				return true
			}
		}
		return false
	}
	for _, ax := range e.eng.cs.Axioms {
		env := &Env{fe: e, vars: map[string]*Val{}, bound: map[string]*Val{}, pkg: e.eng.pkgByPath(ax.PkgPath)}
		saved := e.usedGhost
		e.usedGhost = map[string]bool{}
		t, err := e.evalBool(env, ax.Expr)
		used := e.usedGhost
		e.usedGhost = saved
		if err != nil {
			return nil, fmt.Errorf("axiom %s: %v", ax.Name, err)
		}
		ok := len(used) > 0
		for k := range used {
			if _, d := defs[k]; !d {
				ok = false
			}
		}
		if ok && mentions(t) {
			out = append(out, fmt.Sprintf("(assert %s) ; axiom %s", t, ax.Name))
			e.axiomsUsed = append(e.axiomsUsed, ax.Name)
		}
	}
	{
		for li, lm := range e.eng.cs.Lemmas {
			if e.isLemma && li >= e.lemmaIndex {
				break // a lemma may use only the lemmas stated before it
			}
			t, used, err := e.lemmaFormula(lm)
			if err != nil {
				return nil, err
			}
			ok := len(used) > 0
			for k := range used {
				if _, d := defs[k]; !d {
					ok = false
				}
			}
			if ok {
				out = append(out, fmt.Sprintf("(assert %s) ; lemma %s", t, lm.Name))
				e.lemmasUsed = append(e.lemmasUsed, lm.Name)
			}
		}
	}
	return out, nil
}

func (eng *Engine) pkgByPath(p string) *types.Package {
	for _, q := range eng.tpkgs {
		if q.Path() == p {
			return q
		}
	}
	return nil
}

// lemmaFormula: forall params. requires ==> ensures
func (e *FEnc) lemmaFormula(lm *Lemma) (string, map[string]bool, error) {
	env := &Env{fe: e, vars: map[string]*Val{}, bound: map[string]*Val{}, pkg: e.eng.pkgByPath(lm.PkgPath)}
	var decl []string
	for _, p := range lm.Params {
		s, ty, err := e.sortOfName(env, p.Type)
		if err != nil {
			return "", nil, err
		}
		nm := "|" + lm.Name + "_" + p.Name + "|"
		env.bound[p.Name] = &Val{Ty: ty, Sort: s, T: nm}
		decl = append(decl, fmt.Sprintf("(%s %s)", nm, s))
	}
	saved := e.usedGhost
	e.usedGhost = map[string]bool{}
	defer func() {
		for k := range e.usedGhost {
			saved[k] = saved[k] || false
		}
		e.usedGhost = saved
	}()
	var rq, en []string
	for _, r := range lm.Requires {
		t, err := e.evalBool(env, r)
		if err != nil {
			return "", nil, fmt.Errorf("lemma %s: %v", lm.Name, err)
		}
		rq = append(rq, t)
	}
	for _, r := range lm.Ensures {
		t, err := e.evalBool(env, r)
		if err != nil {
			return "", nil, fmt.Errorf("lemma %s: %v", lm.Name, err)
		}
		en = append(en, t)
	}
	var pats []string
	for _, t := range lm.Triggers {
		v, err := e.eval(env, t)
		if err != nil {
			return "", nil, fmt.Errorf("lemma %s trigger: %v", lm.Name, err)
		}
		pats = append(pats, e.term(v))
	}
	used := e.usedGhost
	body := implies(and(rq...), and(en...))
	if len(pats) > 0 {
		body = fmt.Sprintf("(! %s :pattern (%s))", body, strings.Join(pats, " "))
	}
	return fmt.Sprintf("(forall (%s) %s)", strings.Join(decl, " "), body), used, nil
}

func (o *Obligation) query(withModel bool) (string, error) {
	e := o.fe
	var b strings.Builder
	b.WriteString("(set-option :produce-models true)\n(set-logic ALL)\n")
	// make sure ghost bodies are evaluated first (they may declare sorts and literals)
	gd, err := e.ghostDecls()
	if err != nil {
		return "", err
	}
	for _, d := range e.d.pre {
		b.WriteString(d)
		b.WriteByte('\n')
	}
	for _, d := range e.d.litDecls() {
		b.WriteString(d)
		b.WriteByte('\n')
	}
	for _, k := range e.d.tagOrder {
		_ = k
	}
	for _, c := range e.consts {
		b.WriteString(c)
		b.WriteByte('\n')
	}
	for _, d := range gd {
		b.WriteString(d)
		b.WriteByte('\n')
	}
	if len(e.locs) > 0 {
		b.WriteString("(assert (distinct nil_ref " + strings.Join(e.locs, " ") + "))\n")
		// freshness: no pointer that existed at entry is the address of a local or of something allocated here
		for _, ep := range e.entryPtrs {
			var ne []string
			for _, l := range e.locs {
				ne = append(ne, "(not (= "+ep+" "+l+"))")
			}
			b.WriteString("(assert (and " + strings.Join(ne, " ") + "))\n")
		}
	}
	n := o.NFacts
	if n > len(e.facts) {
		n = len(e.facts)
	}
	keep := e.relevantFacts(o, n)
	for i, f := range e.facts[:n] {
		if keep == nil || keep[i] {
			b.WriteString("(assert " + f + ")\n")
		}
	}
	if o.Cover {
		b.WriteString("(assert " + o.Goal + ")\n")
	} else {
		b.WriteString("(assert (not " + o.Goal + "))\n")
	}
	b.WriteString("(check-sat)\n")
	if withModel && len(o.Show) == 0 && !o.Cover {
		o.Show = o.modelTerms() // inputs of a replayable function: their values make the counterexample
	}
	if withModel && len(o.Show) > 0 {
		b.WriteString("(get-value (" + strings.Join(o.Show, " ") + "))\n")
	}
	return b.String(), nil
}

var reSym = regexp.MustCompile(`[A-Za-z_][A-Za-z0-9_.$]*[!@][0-9]+|loc_[0-9]+`)
var reDef = regexp.MustCompile(`^\(= ([A-Za-z_][A-Za-z0-9_.$]*[!@][0-9]+) `)
var reCondDef = regexp.MustCompile(`^\(=> \S+ \(= ([A-Za-z_][A-Za-z0-9_.$]*[!@][0-9]+) `)

type factInfo struct {
	def  string   // constant defined by this fact ("" for a constraint)
	syms []string // the function's own constants mentioned
}

// relevantFacts: cone of influence of the goal over the function's own constants. A defining equation
// (= c term) is kept when c is needed; any other fact (a constraint) is kept when it mentions a needed
// constant. Leaving a fact out can only make a proof fail, never succeed wrongly.
func (e *FEnc) relevantFacts(o *Obligation, n int) []bool {
	if !e.prune || n < 300 || o.Cover {
		return nil
	}
	e.symMu.Lock()
	if len(e.factInfo) < len(e.facts) {
		e.factInfo = make([]factInfo, len(e.facts))
		for i, f := range e.facts {
			fi := factInfo{}
			if m := reDef.FindStringSubmatch(f); m != nil {
				fi.def = m[1]
			} else if m := reCondDef.FindStringSubmatch(f); m != nil {
				fi.def = m[1]
			}
			seen := map[string]bool{}
			for _, m := range reSym.FindAllString(f, -1) {
				if !seen[m] {
					seen[m] = true
					fi.syms = append(fi.syms, m)
				}
			}
			e.factInfo[i] = fi
		}
	}
	e.symMu.Unlock()
	rel := map[string]bool{}
	for _, m := range reSym.FindAllString(o.Goal, -1) {
		rel[m] = true
	}
	keep := make([]bool, n)
	changed := true
	for changed {
		changed = false
		for i := 0; i < n; i++ {
			if keep[i] {
				continue
			}
			fi := e.factInfo[i]
			hit := len(fi.syms) == 0
			if fi.def != "" {
				hit = rel[fi.def]
			} else {
				for _, s := range fi.syms {
					if rel[s] {
						hit = true
						break
					}
				}
			}
			if hit {
				keep[i] = true
				changed = true
				for _, s := range fi.syms {
					rel[s] = true
				}
			}
		}
	}
	return keep
}
