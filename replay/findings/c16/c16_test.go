// Demonstration for C16: bucket names outside the S3 naming rules are refused on creation.
// S3: "Bucket names must not contain two adjacent periods."
package c16

import (
	"context"
	"encoding/json"
	"os"
	"path/filepath"
	"testing"

	"github.com/aws/aws-sdk-go-v2/service/s3"
	"github.com/aws/aws-sdk-go-v2/service/s3/types"
	"github.com/versity/versitygw/auth"
	"github.com/versity/versitygw/backend/meta"
	"github.com/versity/versitygw/backend/posix"

	"github.com/versity/versitygw/s3api/utils"
)

func TestAdjacentPeriodsRefused(t *testing.T) {
	for _, n := range []string{"a..b", "my..bucket", "abc...def"} {
		if utils.IsValidBucketName(n, false) {
			t.Errorf("bucket name %q is accepted", n)
		}
	}
	for _, n := range []string{"a.b", "my.bucket.name", "abc"} {
		if !utils.IsValidBucketName(n, false) {
			t.Errorf("bucket name %q is refused", n)
		}
	}
}

// With sidecar metadata the attributes of a bucket are not stored with the bucket directory: DeleteBucket left them
// behind, and the next bucket of that name inherited tags and policy of the deleted one.
func TestDeletedBucketSettingsAreGoneWithSidecarMetadata(t *testing.T) {
	top := t.TempDir()
	root, side := filepath.Join(top, "root"), filepath.Join(top, "sidecar")
	os.MkdirAll(root, 0o755)
	os.MkdirAll(side, 0o755)
	sc, err := meta.NewSideCar(side)
	if err != nil {
		t.Fatal(err)
	}
	be, err := posix.New(root, sc, posix.PosixOpts{SideCarDir: side, NewDirPerm: 0o755})
	if err != nil {
		t.Fatal(err)
	}
	ctx := context.Background()
	name := "bkt"
	create := func(owner string) {
		acl, _ := json.Marshal(auth.ACL{Owner: owner})
		if err := be.CreateBucket(ctx, &s3.CreateBucketInput{Bucket: &name, ObjectOwnership: types.ObjectOwnershipBucketOwnerEnforced}, acl); err != nil {
			t.Fatalf("create bucket: %v", err)
		}
	}
	create("alice")
	if err := be.PutBucketTagging(ctx, name, map[string]string{"k": "v"}); err != nil {
		t.Fatal(err)
	}
	if err := be.PutBucketPolicy(ctx, name, []byte(`{"Statement":[]}`)); err != nil {
		t.Fatal(err)
	}
	if err := be.DeleteBucket(ctx, name); err != nil {
		t.Fatalf("delete bucket: %v", err)
	}
	create("bob")
	if tags, err := be.GetBucketTagging(ctx, name); err == nil && len(tags) > 0 {
		t.Errorf("the new bucket has the tags of the deleted one: %v", tags)
	}
	if pol, err := be.GetBucketPolicy(ctx, name); err == nil && len(pol) > 0 {
		t.Errorf("the new bucket has the policy of the deleted one: %s", pol)
	}
}

// The S3 naming rules reserve some prefixes and suffixes; names using them were accepted.
func TestReservedBucketNameFormsRefused(t *testing.T) {
	for _, n := range []string{"xn--abc", "sthree-abc", "sthree-configurator", "amzn-s3-demo-abc", "abc-s3alias", "abc--ol-s3", "abc.mrap", "abc--x-s3", "abc--table-s3"} {
		if utils.IsValidBucketName(n, false) {
			t.Errorf("bucket name %q is accepted", n)
		}
	}
	for _, n := range []string{"xn-abc", "sthreeabc", "abc-s3", "my-bucket.mrap.x", "s3alias-abc"} {
		if !utils.IsValidBucketName(n, false) {
			t.Errorf("bucket name %q is refused", n)
		}
	}
}
