package main

// SSA instruction -> facts / obligations.

import (
	"fmt"
	"go/constant"
	"go/token"
	"go/types"
	"math/big"
	"strings"

	"golang.org/x/tools/go/ssa"
)

func constantBool(c *ssa.Const) bool     { return constant.BoolVal(c.Value) }
func constantString(c *ssa.Const) string { return constant.StringVal(c.Value) }
func constantInt(c *ssa.Const) constant.Value {
	v := constant.ToInt(c.Value)
	if v.Kind() != constant.Int {
		return constant.MakeInt64(0)
	}
	return v
}

func isUnsigned(t types.Type) bool {
	b, ok := t.Underlying().(*types.Basic)
	return ok && b.Info()&types.IsUnsigned != 0
}
func isInteger(t types.Type) bool {
	b, ok := t.Underlying().(*types.Basic)
	return ok && b.Info()&types.IsInteger != 0
}
func isString(t types.Type) bool {
	b, ok := t.Underlying().(*types.Basic)
	return ok && b.Info()&types.IsString != 0
}
func isBoolean(t types.Type) bool {
	b, ok := t.Underlying().(*types.Basic)
	return ok && b.Info()&types.IsBoolean != 0
}
func isFloat(t types.Type) bool {
	b, ok := t.Underlying().(*types.Basic)
	return ok && b.Info()&(types.IsFloat|types.IsComplex) != 0
}

func pow2(n int) string { return new(big.Int).Lsh(big.NewInt(1), uint(n)).String() }

func intBits(t types.Type) (bits int, signed bool) {
	b := t.Underlying().(*types.Basic)
	switch b.Kind() {
	case types.Int8:
		return 8, true
	case types.Int16:
		return 16, true
	case types.Int32:
		return 32, true
	case types.Int, types.Int64, types.UntypedInt, types.UntypedRune:
		return 64, true
	case types.Uint8:
		return 8, false
	case types.Uint16:
		return 16, false
	case types.Uint32:
		return 32, false
	case types.Uint, types.Uint64, types.Uintptr:
		return 64, false
	}
	return 64, true
}

func (e *FEnc) inRange(t string, ty types.Type) string {
	b, ok := ty.Underlying().(*types.Basic)
	if !ok {
		return "true"
	}
	lo, hi, ok := intRange(b)
	if !ok {
		return "true"
	}
	return fmt.Sprintf("(and (<= %s %s) (<= %s %s))", lo, t, t, hi)
}

func (e *FEnc) wrap(t string, ty types.Type) string {
	bits, signed := intBits(ty)
	if signed {
		return fmt.Sprintf("(- (mod (+ %s %s) %s) %s)", t, pow2(bits-1), pow2(bits), pow2(bits-1))
	}
	return fmt.Sprintf("(mod %s %s)", t, pow2(bits))
}

func (e *FEnc) define(in ssa.Value, v *Val) { e.vals[in] = v }

// defTerm names a term with a fresh constant when it is large, to keep the query a DAG.
func (e *FEnc) defTerm(prefix, t, sort string) string {
	if len(t) < 80 || e.noFacts {
		return t
	}
	n := e.fresh(prefix, sort)
	e.fact(eq(n, t))
	return n
}

func (e *FEnc) instr(st *State, b *ssa.BasicBlock, idx int, in ssa.Instruction) {
	switch x := in.(type) {
	case *ssa.DebugRef, *ssa.Jump, *ssa.If:
		return
	case *ssa.Phi:
		return // handled on block entry
	case *ssa.Alloc:
		name := x.Comment
		if name == "" {
			name = x.Name()
		}
		e.define(x, e.newAlloc(x.Type().Underlying().(*types.Pointer).Elem(), x, name, st))
	case *ssa.FieldAddr:
		base := e.valOf(x.X)
		p := e.ptrOf(base)
		if p.Root == rRef && len(p.Path) == 0 {
			e.safetyOb(st, "nil", in, "&"+x.X.Name()+"."+fieldName(x.X.Type(), x.Field), not(eq(p.Ref, "nil_ref")))
		}
		if base.NilIf != "" {
			e.safetyOb(st, "nil", in, "&"+x.X.Name()+"."+fieldName(x.X.Type(), x.Field), not(base.NilIf))
		}
		np := p.extend(PathEl{Field: x.Field})
		e.define(x, &Val{Ty: x.Type(), Sort: "Ref", P: np})
	case *ssa.Field:
		e.define(x, e.fieldOf(e.valOf(x.X), x.Field))
	case *ssa.IndexAddr:
		e.indexAddr(st, x)
	case *ssa.Index:
		base := e.valOf(x.X)
		i := e.term(e.valOf(x.Index))
		if at, ok := x.X.Type().Underlying().(*types.Array); ok {
			e.safetyOb(st, "idx", in, x.X.Name()+"["+x.Index.Name()+"]", fmt.Sprintf("(and (<= 0 %s) (< %s %d))", i, i, at.Len()))
			e.define(x, e.project(base, []PathEl{{Field: -1, Index: i}}))
		} else if isString(x.X.Type()) {
			s := e.term(base)
			e.safetyOb(st, "idx", in, x.X.Name()+"["+x.Index.Name()+"]", fmt.Sprintf("(and (<= 0 %s) (< %s (len_s %s)))", i, i, s))
			t := fmt.Sprintf("(at_s %s %s)", s, i)
			e.fact(fmt.Sprintf("(and (<= 0 %s) (<= %s 255))", t, t))
			e.define(x, &Val{Ty: x.Type(), Sort: "Int", T: t})
		} else {
			e.define(x, e.newVal(x.Type(), "idx"))
		}
	case *ssa.Lookup:
		e.lookup(st, x)
	case *ssa.UnOp:
		e.unop(st, x)
	case *ssa.BinOp:
		e.binop(st, x)
	case *ssa.Store:
		addr := e.valOf(x.Addr)
		p := e.ptrOf(addr)
		if p.Root == rRef && len(p.Path) == 0 {
			e.safetyOb(st, "nil", in, "*"+x.Addr.Name()+"=", not(eq(p.Ref, "nil_ref")))
		}
		e.store(st, p, e.valOf(x.Val))
	case *ssa.Call:
		e.call(st, x, x.Common(), x)
	case *ssa.Defer:
		// effect happens at RunDefers; arguments may leak now. A clause can speak about the point where something is
		// deferred: at-call defer:<callee> (the literal's name for a deferred function literal)
		{
			var dargs []*Val
			for _, a := range x.Call.Args {
				dargs = append(dargs, e.valOf(a))
			}
			e.atCall(st, in, "defer:"+calleeName(&x.Call), dargs, nil)
		}
		for _, a := range x.Call.Args {
			e.leakVal(e.valOf(a))
		}
		if x.Call.Value != nil {
			e.leakVal(e.valOf(x.Call.Value))
		}
	case *ssa.Go:
		e.note("go statement: goroutine body not modelled")
		{
			var gargs []*Val
			for _, a := range x.Call.Args {
				gargs = append(gargs, e.valOf(a))
			}
			gname := calleeName(&x.Call)
			e.atCall(st, in, gname, gargs, nil)
			st.called[gname] = "true"
			st.countCall(gname)
		}
		for _, a := range x.Call.Args {
			e.leakVal(e.valOf(a))
		}
		e.havocHeap(st)
		e.havocLeaked(st)
	case *ssa.RunDefers:
		if hasDefers(e.fn) && !e.defersKeepHeap() {
			e.havocHeap(st)
			e.havocLeaked(st)
			e.publishExposed(st)
		}
	case *ssa.Convert:
		e.convert(st, x)
	case *ssa.ChangeType:
		v := e.valOf(x.X)
		ns := e.sortOf(x.Type())
		if ns == v.Sort {
			nv := *v
			nv.Ty = x.Type()
			e.define(x, &nv)
		} else if structOf(x.Type()) != nil && structOf(v.Ty) != nil {
			ex := e.explode(v)
			nv := &Val{Ty: x.Type(), Sort: ns, Fields: ex.Fields}
			e.define(x, nv)
		} else {
			e.define(x, e.newVal(x.Type(), "chg"))
		}
	case *ssa.MakeInterface:
		v := e.valOf(x.X)
		box, unbox := e.d.boxFns(x.X.Type())
		t := e.defTerm("box", fmt.Sprintf("(%s %s)", box, e.term(v)), "Iface")
		e.fact(eq(fmt.Sprintf("(%s %s)", unbox, t), e.term(v)))
		e.fact(eq(fmt.Sprintf("(tagof %s)", t), fmt.Sprint(e.d.tagOf(x.X.Type()))))
		e.markAliased(v)
		e.define(x, &Val{Ty: x.Type(), Sort: "Iface", T: t, Box: v})
	case *ssa.ChangeInterface:
		v := e.valOf(x.X)
		e.define(x, &Val{Ty: x.Type(), Sort: "Iface", T: e.term(v)})
	case *ssa.TypeAssert:
		e.typeAssert(st, x)
	case *ssa.Extract:
		t := e.valOf(x.Tuple)
		if t.Tup == nil || x.Index >= len(t.Tup) {
			e.define(x, e.newVal(x.Type(), "ext"))
		} else {
			e.define(x, t.Tup[x.Index])
		}
	case *ssa.Slice:
		e.sliceInstr(st, x)
	case *ssa.MakeSlice:
		ln := e.term(e.valOf(x.Len))
		cp := e.term(e.valOf(x.Cap))
		e.safetyOb(st, "make", in, "make("+x.Len.Name()+")", fmt.Sprintf("(and (<= 0 %s) (<= %s %s))", ln, ln, cp))
		if _, isConst := x.Cap.(*ssa.Const); !isConst {
			// C20: no allocation sized by a number the function cannot bound. Lengths of objects already in memory are
			// at most memLenBound (2^40, a standing assumption); a new object may be 16 times that.
			e.safetyOb(st, "alloc", in, "make("+x.Cap.Name()+")", fmt.Sprintf("(<= %s 17592186044416)", cp))
		}
		e.atCallBuiltin(st, in, "builtin.make", []*Val{e.valOf(x.Len), e.valOf(x.Cap)})
		elem := x.Type().Underlying().(*types.Slice).Elem()
		base := e.fresh("mk", "Ref")
		e.locs = append(e.locs, base)
		// a new array shares no memory with what the function was handed: it is not the backing array of any
		// slice parameter
		for _, p := range e.fn.Params {
			if _, ok := p.Type().Underlying().(*types.Slice); ok {
				if pv := e.vals[p]; pv != nil && pv.T != "" {
					e.fact(not(eq(base, fmt.Sprintf("(sl_base %s)", pv.T))))
				}
			}
		}
		hn, hs := e.d.heapElem(elem)
		h := e.heapGet(st, hn, hs)
		arrSort := "(Array Int " + e.sortOf(elem) + ")"
		e.heapSet(st, hn, hs, fmt.Sprintf("(store %s %s ((as const %s) %s))", h, base, arrSort, e.term(e.zero(elem))))
		e.define(x, &Val{Ty: x.Type(), Sort: "Slice", T: fmt.Sprintf("(mk_slice %s 0 %s %s)", base, ln, cp)})
	case *ssa.MakeMap:
		m := e.fresh("map", "Ref")
		e.locs = append(e.locs, m)
		mt := x.Type().Underlying().(*types.Map)
		dn, ds, _, _ := e.mapHeaps(mt)
		d := e.heapGet(st, dn, ds)
		empty := fmt.Sprintf("((as const (Array %s Bool)) false)", e.sortOf(mt.Key()))
		e.heapSet(st, dn, ds, fmt.Sprintf("(store %s %s %s)", d, m, empty))
		e.fact(fmt.Sprintf("(= (%s %s) 0)", e.cardFn(mt), empty))
		e.define(x, &Val{Ty: x.Type(), Sort: "Ref", T: m})
	case *ssa.MapUpdate:
		mt := x.Map.Type().Underlying().(*types.Map)
		m := e.term(e.valOf(x.Map))
		e.safetyOb(st, "nil", in, "mapassign "+x.Map.Name(), not(eq(m, "nil_ref")))
		k := e.term(e.valOf(x.Key))
		v := e.term(e.valOf(x.Value))
		dn, ds, vn, vs := e.mapHeaps(mt)
		d := e.heapGet(st, dn, ds)
		hv := e.heapGet(st, vn, vs)
		e.heapSet(st, dn, ds, fmt.Sprintf("(store %s %s (store (select %s %s) %s true))", d, m, d, m, k))
		// cardinality of the key set: grows by one exactly when the key is new
		e.fact(fmt.Sprintf("(= (%[1]s (store (select %[2]s %[3]s) %[4]s true)) (+ (%[1]s (select %[2]s %[3]s)) (ite (select (select %[2]s %[3]s) %[4]s) 0 1)))", e.cardFn(mt), d, m, k))
		e.heapSet(st, vn, vs, fmt.Sprintf("(store %s %s (store (select %s %s) %s %s))", hv, m, hv, m, k, v))
	case *ssa.Range:
		e.define(x, &Val{Ty: x.Type(), Sort: "Iter", T: "iter"})
		if mt, ok := x.X.Type().Underlying().(*types.Map); ok {
			// ghost: the set of keys the iteration has visited so far (starts empty)
			gs := "(Array " + e.sortOf(mt.Key()) + " Bool)"
			id := len(e.allocs)
			e.allocs = append(e.allocs, &AllocInfo{ID: id, Name: "visited", GhostSort: gs})
			st.cells[id] = &Val{Sort: gs, T: fmt.Sprintf("((as const %s) false)", gs)}
			e.rangeGhost[x] = id
		}
	case *ssa.Next:
		e.next(st, x)
	case *ssa.MakeClosure:
		for _, bnd := range x.Bindings {
			e.leakVal(e.valOf(bnd))
		}
		t := e.fresh("clo", "Fn")
		e.fact(not(eq(t, "nil_fn")))
		e.define(x, &Val{Ty: x.Type(), Sort: "Fn", T: t})
	case *ssa.Return:
		e.ret(st, x)
	case *ssa.Panic:
		if e.safety {
			e.safetyOb(st, "panic", in, "explicit", "false")
		}
	case *ssa.Send:
		e.note("channel send not modelled")
	case *ssa.Select:
		e.note("select not modelled")
		e.define(x, e.newVal(x.Type(), "sel"))
	default:
		if v, ok := in.(ssa.Value); ok {
			e.note(fmt.Sprintf("instruction %T abstracted", in))
			e.define(v, e.newVal(v.Type(), "abs"))
		}
	}
}

func hasDefers(fn *ssa.Function) bool {
	for _, b := range fn.Blocks {
		for _, in := range b.Instrs {
			if _, ok := in.(*ssa.Defer); ok {
				return true
			}
		}
	}
	return false
}

func fieldName(t types.Type, i int) string {
	if pt, ok := t.Underlying().(*types.Pointer); ok {
		t = pt.Elem()
	}
	if st := structOf(t); st != nil && i < st.NumFields() {
		return st.Field(i).Name()
	}
	return fmt.Sprint(i)
}

func (e *FEnc) mapHeaps(mt *types.Map) (dn, ds, vn, vs string) {
	k := e.d.typeKey(mt.Key())
	ks := e.sortOf(mt.Key())
	dn = "HMd_" + k
	ds = "(Array Ref (Array " + ks + " Bool))"
	vn = "HMv_" + k + "_" + e.d.typeKey(mt.Elem())
	vs = "(Array Ref (Array " + ks + " " + e.sortOf(mt.Elem()) + "))"
	return
}

func (e *FEnc) indexAddr(st *State, x *ssa.IndexAddr) {
	base := e.valOf(x.X)
	i := e.term(e.valOf(x.Index))
	switch t := x.X.Type().Underlying().(type) {
	case *types.Slice:
		s := e.term(base)
		e.safetyOb(st, "idx", x, x.X.Name()+"["+x.Index.Name()+"]", fmt.Sprintf("(and (<= 0 %s) (< %s (sl_len %s)))", i, i, s))
		abs := e.d.slIdx(s, i)
		e.define(x, &Val{Ty: x.Type(), Sort: "Ref", P: &Ptr{Root: rElem, Base: fmt.Sprintf("(sl_base %s)", s), Idx: abs, Elem: t.Elem()}})
	case *types.Pointer:
		at := t.Elem().Underlying().(*types.Array)
		e.safetyOb(st, "idx", x, x.X.Name()+"["+x.Index.Name()+"]", fmt.Sprintf("(and (<= 0 %s) (< %s %d))", i, i, at.Len()))
		p := e.ptrOf(base)
		if p.Root == rLocal && len(p.Path) == 0 && e.allocs[p.Alloc].Published {
			e.define(x, &Val{Ty: x.Type(), Sort: "Ref", P: &Ptr{Root: rElem, Base: fmt.Sprintf("loc_%d", p.Alloc), Idx: i, Elem: at.Elem()}})
			return
		}
		if p.Root == rRef && len(p.Path) == 0 {
			e.safetyOb(st, "nil", x, "&"+x.X.Name()+"[]", not(eq(p.Ref, "nil_ref")))
		}
		e.define(x, &Val{Ty: x.Type(), Sort: "Ref", P: p.extend(PathEl{Field: -1, Index: i})})
	default:
		e.define(x, e.newVal(x.Type(), "ia"))
	}
}

func (e *FEnc) lookup(st *State, x *ssa.Lookup) {
	if isString(x.X.Type()) {
		s := e.term(e.valOf(x.X))
		i := e.term(e.valOf(x.Index))
		e.safetyOb(st, "idx", x, x.X.Name()+"["+x.Index.Name()+"]", fmt.Sprintf("(and (<= 0 %s) (< %s (len_s %s)))", i, i, s))
		t := fmt.Sprintf("(at_s %s %s)", s, i)
		e.fact(fmt.Sprintf("(and (<= 0 %s) (<= %s 255))", t, t))
		e.define(x, &Val{Ty: x.Type(), Sort: "Int", T: t})
		return
	}
	mt := x.X.Type().Underlying().(*types.Map)
	m := e.term(e.valOf(x.X))
	k := e.term(e.valOf(x.Index))
	dn, ds, vn, vs := e.mapHeaps(mt)
	d := e.heapGet(st, dn, ds)
	hv := e.heapGet(st, vn, vs)
	ok := e.defTerm("mok", fmt.Sprintf("(and (not (= %s nil_ref)) (select (select %s %s) %s))", m, d, m, k), "Bool")
	raw := fmt.Sprintf("(select (select %s %s) %s)", hv, m, k)
	z := e.term(e.zero(mt.Elem()))
	vt := e.defTerm("mval", fmt.Sprintf("(ite %s %s %s)", ok, raw, z), e.sortOf(mt.Elem()))
	e.typeFacts(vt, mt.Elem(), 1)
	val := &Val{Ty: mt.Elem(), Sort: e.sortOf(mt.Elem()), T: vt}
	if x.CommaOk {
		e.define(x, &Val{Ty: x.Type(), Sort: "Tuple", Tup: []*Val{val, e.boolVal(ok)}})
	} else {
		e.define(x, val)
	}
}

func (e *FEnc) next(st *State, x *ssa.Next) {
	ok := e.fresh("nxt_ok", "Bool")
	tup := x.Type().(*types.Tuple)
	kv := e.newVal(tup.At(1).Type(), "nxt_k")
	vv := e.newVal(tup.At(2).Type(), "nxt_v")
	if x.IsString {
		rng := x.Iter.(*ssa.Range)
		s := e.term(e.valOf(rng.X))
		e.fact(implies(ok, fmt.Sprintf("(and (<= 0 %s) (< %s (len_s %s)))", kv.T, kv.T, s)))
	} else if rng, isR := x.Iter.(*ssa.Range); isR {
		if mt, isM := rng.X.Type().Underlying().(*types.Map); isM {
			m := e.term(e.valOf(rng.X))
			dn, ds, vn, vs := e.mapHeaps(mt)
			d := e.heapGet(st, dn, ds)
			hv := e.heapGet(st, vn, vs)
			if kv.T != "" && vv.T != "" && !isInvalid(tup.At(1).Type()) {
				f := fmt.Sprintf("(select (select %s %s) %s)", d, m, kv.T)
				if !isInvalid(tup.At(2).Type()) {
					f = and(f, eq(vv.T, fmt.Sprintf("(select (select %s %s) %s)", hv, m, kv.T)))
				}
				e.fact(implies(ok, and(f, not(eq(m, "nil_ref")))))
				// every key is visited exactly once, and the iteration ends only when all were
				if gid, has := e.rangeGhost[rng]; has {
					if cell, okc := st.cells[gid]; okc {
						v := cell.T
						ks := e.sortOf(mt.Key())
						e.fact(implies(ok, not(fmt.Sprintf("(select %s %s)", v, kv.T))))
						e.fact(implies(not(ok), fmt.Sprintf("(forall ((x %s)) (! (=> (select (select %s %s) x) (select %s x)) :pattern ((select (select %s %s) x)) :pattern ((select %s x))))", ks, d, m, v, d, m, v)))
						nv := e.fresh("visited", cell.Sort)
						e.fact(eq(nv, fmt.Sprintf("(ite %s (store %s %s true) %s)", ok, v, kv.T, v)))
						st.cells[gid] = &Val{Sort: cell.Sort, T: nv}
					}
				}
			}
		}
	}
	e.define(x, &Val{Ty: x.Type(), Sort: "Tuple", Tup: []*Val{e.boolVal(ok), kv, vv}})
}

func isInvalid(t types.Type) bool {
	b, ok := t.(*types.Basic)
	return ok && b.Kind() == types.Invalid
}

func (e *FEnc) unop(st *State, x *ssa.UnOp) {
	v := e.valOf(x.X)
	switch x.Op {
	case token.MUL:
		p := e.ptrOf(v)
		if p.Root == rRef && len(p.Path) == 0 {
			e.safetyOb(st, "nil", x, "*"+x.X.Name(), not(eq(p.Ref, "nil_ref")))
		}
		if v.NilIf != "" {
			e.safetyOb(st, "nil", x, "*"+x.X.Name(), not(v.NilIf))
		}
		lv := e.load(st, p)
		e.define(x, lv)
	case token.NOT:
		e.define(x, e.boolVal(not(e.term(v))))
	case token.SUB:
		if isInteger(x.Type()) {
			t := fmt.Sprintf("(- %s)", e.term(v))
			e.arith(st, x, t)
		} else {
			e.define(x, e.newVal(x.Type(), "neg"))
		}
	case token.XOR:
		if isInteger(x.Type()) && !isUnsigned(x.Type()) {
			e.define(x, e.termVal(fmt.Sprintf("(- (- %s) 1)", e.term(v)), x.Type()))
		} else {
			e.define(x, e.newVal(x.Type(), "cpl"))
		}
	case token.ARROW:
		e.note("channel receive not modelled")
		e.define(x, e.newVal(x.Type(), "recv"))
	default:
		e.define(x, e.newVal(x.Type(), "un"))
	}
}

// arith defines an integer result; in checked mode an overflow obligation is emitted, otherwise the wrapped value is used.
func (e *FEnc) arith(st *State, x ssa.Value, t string) {
	ty := x.Type()
	if b, ok := ty.Underlying().(*types.Basic); ok && (b.Kind() == types.UntypedInt || b.Kind() == types.UntypedRune) {
		e.define(x, e.termVal(t, ty))
		return
	}
	n := e.defTerm("ar", t, "Int")
	if e.checked {
		in := x.(ssa.Instruction)
		what := e.srcExpr(in.Pos())
		if what == "" {
			what = opText(x)
		}
		k := "ovf:" + what
		e.safetyCount[k]++
		e.oblige("ovf", fmt.Sprintf("%s@%d", what, e.safetyCount[k]), e.ovfProps(), in.Pos(), "no overflow in "+what, st.reach, e.inRange(n, ty))
		e.define(x, e.termVal(n, ty))
		return
	}
	w := e.defTerm("wr", e.wrap(n, ty), "Int")
	e.define(x, e.termVal(w, ty))
}

func (e *FEnc) ovfProps() []string {
	ps := map[string]bool{}
	if e.fc != nil {
		for _, c := range e.fc.Clauses {
			if c.Kind == "ensures" || c.Kind == "invariant" {
				for _, p := range c.Props {
					ps[p] = true
				}
			}
		}
	}
	return sortedKeys(ps)
}

func opText(v ssa.Value) string {
	if b, ok := v.(*ssa.BinOp); ok {
		nm := func(x ssa.Value) string {
			if ph, ok := x.(*ssa.Phi); ok && ph.Comment != "" {
				return ph.Comment
			}
			if c, ok := x.(*ssa.Const); ok && c.Value != nil {
				return c.Value.ExactString()
			}
			return x.Name()
		}
		return fmt.Sprintf("%s%s%s", nm(b.X), b.Op.String(), nm(b.Y))
	}
	return v.Name()
}

func goDiv(a, b string) string {
	return fmt.Sprintf("(ite (>= %s 0) (div %s %s) (- (div (- %s) %s)))", a, a, b, a, b)
}

func (e *FEnc) binop(st *State, x *ssa.BinOp) {
	a, b := e.valOf(x.X), e.valOf(x.Y)
	xt := x.X.Type()
	switch x.Op {
	case token.EQL, token.NEQ:
		var t string
		if a.Sort == "Slice" || b.Sort == "Slice" {
			// only comparison with nil is legal
			s := a
			if strings.HasPrefix(e.term(a), "(mk_slice nil_ref") {
				s = b
			}
			t = eq(fmt.Sprintf("(sl_base %s)", e.term(s)), "nil_ref")
		} else {
			t = eq(e.term(a), e.term(b))
		}
		if x.Op == token.NEQ {
			t = not(t)
		}
		e.define(x, e.boolVal(t))
		return
	case token.LSS, token.LEQ, token.GTR, token.GEQ:
		op := map[token.Token]string{token.LSS: "<", token.LEQ: "<=", token.GTR: ">", token.GEQ: ">="}[x.Op]
		switch {
		case isInteger(xt):
			e.define(x, e.boolVal(fmt.Sprintf("(%s %s %s)", op, e.term(a), e.term(b))))
		case isString(xt):
			at, bt := e.term(a), e.term(b)
			var t string
			switch x.Op {
			case token.LSS:
				t = fmt.Sprintf("(str_less %s %s)", at, bt)
			case token.GTR:
				t = fmt.Sprintf("(str_less %s %s)", bt, at)
			case token.LEQ:
				t = fmt.Sprintf("(not (str_less %s %s))", bt, at)
			case token.GEQ:
				t = fmt.Sprintf("(not (str_less %s %s))", at, bt)
			}
			e.strLessFacts(at, bt)
			e.define(x, e.boolVal(t))
		default:
			e.define(x, e.newVal(x.Type(), "cmp"))
		}
		return
	}
	if isString(x.Type()) && x.Op == token.ADD {
		t := e.concat(e.term(a), e.term(b))
		e.define(x, e.termVal(t, x.Type()))
		return
	}
	if isBoolean(x.Type()) {
		switch x.Op {
		case token.AND:
			e.define(x, e.boolVal(and(e.term(a), e.term(b))))
		case token.OR:
			e.define(x, e.boolVal(or(e.term(a), e.term(b))))
		default:
			e.define(x, e.newVal(x.Type(), "bop"))
		}
		return
	}
	if !isInteger(x.Type()) {
		e.define(x, e.newVal(x.Type(), "fop"))
		return
	}
	at, bt := e.term(a), e.term(b)
	switch x.Op {
	case token.ADD:
		e.arith(st, x, fmt.Sprintf("(+ %s %s)", at, bt))
	case token.SUB:
		e.arith(st, x, fmt.Sprintf("(- %s %s)", at, bt))
	case token.MUL:
		e.arith(st, x, fmt.Sprintf("(* %s %s)", at, bt))
	case token.QUO:
		e.safetyOb(st, "div", x, x.Y.Name(), not(eq(bt, "0")))
		e.arith(st, x, goDiv(at, bt))
	case token.REM:
		e.safetyOb(st, "div", x, x.Y.Name(), not(eq(bt, "0")))
		e.define(x, e.termVal(e.defTerm("rem", fmt.Sprintf("(- %s (* %s %s))", at, bt, goDiv(at, bt)), "Int"), x.Type()))
	case token.SHL:
		if c, ok := x.Y.(*ssa.Const); ok {
			n, _ := constant.Int64Val(constantInt(c))
			e.arith(st, x, fmt.Sprintf("(* %s %s)", at, pow2(int(n))))
		} else {
			e.define(x, e.newVal(x.Type(), "shl"))
		}
	case token.SHR:
		if c, ok := x.Y.(*ssa.Const); ok {
			n, _ := constant.Int64Val(constantInt(c))
			e.define(x, e.termVal(fmt.Sprintf("(div %s %s)", at, pow2(int(n))), x.Type()))
		} else {
			e.define(x, e.newVal(x.Type(), "shr"))
		}
	case token.AND:
		// x & (2^k-1) on non-negative x
		if c, ok := x.Y.(*ssa.Const); ok {
			n, exact := constant.Int64Val(constantInt(c))
			if exact && n > 0 && (n&(n+1)) == 0 {
				r := e.newVal(x.Type(), "and")
				e.fact(implies(fmt.Sprintf("(>= %s 0)", at), eq(r.T, fmt.Sprintf("(mod %s %d)", at, n+1))))
				e.fact(fmt.Sprintf("(and (<= 0 %s) (<= %s %d))", r.T, r.T, n))
				e.define(x, r)
				return
			}
		}
		e.define(x, e.newVal(x.Type(), "and"))
	default:
		e.define(x, e.newVal(x.Type(), "bit"))
	}
}

// concat builds string concatenation in a canonical (right-nested, flattened) form so that
// (a+b)+c and a+(b+c) are the same term.
func (e *FEnc) concat(a, b string) string {
	empty := e.d.strLit("")
	if a == empty {
		return b
	}
	if b == empty {
		return a
	}
	parts := append(append([]string{}, e.partsOf(a)...), e.partsOf(b)...)
	return e.concatList(parts)
}

func (e *FEnc) partsOf(t string) []string {
	if p, ok := e.catParts[t]; ok {
		return p
	}
	return []string{t}
}

func (e *FEnc) concatList(parts []string) string {
	if len(parts) == 1 {
		return parts[0]
	}
	key := strings.Join(parts, "\x00")
	if t, ok := e.catCache[key]; ok {
		return t
	}
	rest := e.concatList(parts[1:])
	t := e.concat2(parts[0], rest)
	e.catCache[key] = t
	e.catParts[t] = parts
	return t
}

func (e *FEnc) concat2(a, b string) string {
	empty := e.d.strLit("")
	t := fmt.Sprintf("(concat_s %s %s)", a, b)
	if !e.noFacts {
		t = e.defTerm("cat", t, "Str")
		if !strings.HasPrefix(t, "(") {
			// named: make sure the name is long-lived
		}
	}
	e.fact(eq(fmt.Sprintf("(len_s %s)", t), fmt.Sprintf("(+ (len_s %s) (len_s %s))", a, b)))
	e.fact(fmt.Sprintf("(forall ((i Int)) (! (=> (and (<= 0 i) (< i (len_s %s))) (= (at_s %s i) (ite (< i (len_s %s)) (at_s %s i) (at_s %s (- i (len_s %s)))))) :pattern ((at_s %s i))))", t, t, a, a, b, a, t))
	e.fact(fmt.Sprintf("(= (= (len_s %s) 0) (= %s %s))", t, t, empty))
	return t
}

func (e *FEnc) strLessFacts(a, b string) {
	// irreflexive, asymmetric, total on distinct strings; empty string is least
	e.fact(fmt.Sprintf("(not (and (str_less %s %s) (str_less %s %s)))", a, b, b, a))
	e.fact(fmt.Sprintf("(=> (not (= %s %s)) (or (str_less %s %s) (str_less %s %s)))", a, b, a, b, b, a))
	e.fact(fmt.Sprintf("(not (str_less %s %s))", a, a))
	e.fact(fmt.Sprintf("(not (str_less %s %s))", b, b))
}

func (e *FEnc) substr(s, lo, hi string) string {
	t := e.defTerm("sub", fmt.Sprintf("(sub_s %s %s %s)", s, lo, hi), "Str")
	e.fact(implies(fmt.Sprintf("(and (<= 0 %s) (<= %s %s) (<= %s (len_s %s)))", lo, lo, hi, hi, s),
		and(eq(fmt.Sprintf("(len_s %s)", t), fmt.Sprintf("(- %s %s)", hi, lo)),
			fmt.Sprintf("(forall ((i Int)) (! (=> (and (<= 0 i) (< i (- %s %s))) (= (at_s %s i) (at_s %s (+ %s i)))) :pattern ((at_s %s i))))", hi, lo, t, s, lo, t))))
	e.fact(fmt.Sprintf("(>= (len_s %s) 0)", t))
	e.fact(fmt.Sprintf("(= (= (len_s %s) 0) (= %s %s))", t, t, e.d.strLit("")))
	e.fact(implies(and(eq(lo, "0"), eq(hi, fmt.Sprintf("(len_s %s)", s))), eq(t, s)))
	return t
}

func (e *FEnc) convert(st *State, x *ssa.Convert) {
	v := e.valOf(x.X)
	from, to := x.X.Type(), x.Type()
	switch {
	case isInteger(from) && isInteger(to):
		fb, fs := intBits(from)
		tb, ts := intBits(to)
		t := e.term(v)
		fits := (fs == ts && tb >= fb) || (fs == false && ts == true && tb > fb)
		if fb0, ok := from.Underlying().(*types.Basic); ok && (fb0.Kind() == types.UntypedInt || fb0.Kind() == types.UntypedRune) {
			fits = false
		}
		if fits {
			e.define(x, e.termVal(t, to))
		} else {
			e.define(x, e.termVal(e.defTerm("cv", e.wrap(t, to), "Int"), to))
		}
	case isString(from) && isString(to):
		e.define(x, e.termVal(e.term(v), to))
	case isString(to) && isByteSlice(from):
		s := e.term(v)
		r := e.newVal(to, "str")
		e.fact(eq(fmt.Sprintf("(len_s %s)", r.T), fmt.Sprintf("(sl_len %s)", s)))
		hn, hs := e.d.heapElem(types.Typ[types.Uint8])
		h := e.heapGet(st, hn, hs)
		e.fact(fmt.Sprintf("(forall ((i Int)) (! (=> (and (<= 0 i) (< i (sl_len %s))) (= (at_s %s i) (select (select %s (sl_base %s)) (+ (sl_off %s) i)))) :pattern ((at_s %s i))))", s, r.T, h, s, s, r.T))
		e.define(x, r)
	case isByteSlice(to) && isString(from):
		s := e.term(v)
		base := e.fresh("bs", "Ref")
		e.locs = append(e.locs, base)
		arr := e.fresh("bsarr", "(Array Int Int)")
		e.fact(fmt.Sprintf("(forall ((i Int)) (! (=> (and (<= 0 i) (< i (len_s %s))) (= (select %s i) (at_s %s i))) :pattern ((select %s i))))", s, arr, s, arr))
		hn, hs := e.d.heapElem(types.Typ[types.Uint8])
		h := e.heapGet(st, hn, hs)
		e.heapSet(st, hn, hs, fmt.Sprintf("(store %s %s %s)", h, base, arr))
		e.define(x, &Val{Ty: to, Sort: "Slice", T: fmt.Sprintf("(mk_slice %s 0 (len_s %s) (len_s %s))", base, s, s)})
	default:
		if e.sortOf(from) == e.sortOf(to) && (e.sortOf(to) == "Ref") {
			e.define(x, e.termVal(e.term(v), to))
			return
		}
		e.define(x, e.newVal(to, "conv"))
	}
}

func isByteSlice(t types.Type) bool {
	s, ok := t.Underlying().(*types.Slice)
	if !ok {
		return false
	}
	b, ok := s.Elem().Underlying().(*types.Basic)
	return ok && b.Kind() == types.Uint8
}

func (e *FEnc) typeAssert(st *State, x *ssa.TypeAssert) {
	v := e.valOf(x.X)
	t := e.term(v)
	var ok string
	var val *Val
	if _, isIface := x.AssertedType.Underlying().(*types.Interface); isIface {
		okc := e.fresh("ta_ok", "Bool")
		e.fact(implies(okc, not(eq(t, "nil_iface"))))
		ok = okc
		val = &Val{Ty: x.AssertedType, Sort: "Iface", T: t}
	} else {
		_, unbox := e.d.boxFns(x.AssertedType)
		ok = eq(fmt.Sprintf("(tagof %s)", t), fmt.Sprint(e.d.tagOf(x.AssertedType)))
		ut := e.defTerm("unb", fmt.Sprintf("(%s %s)", unbox, t), e.sortOf(x.AssertedType))
		e.typeFacts(ut, x.AssertedType, 0)
		val = &Val{Ty: x.AssertedType, Sort: e.sortOf(x.AssertedType), T: ut}
	}
	if x.CommaOk {
		// value is the zero value when !ok
		e.define(x, &Val{Ty: x.Type(), Sort: "Tuple", Tup: []*Val{val, e.boolVal(ok)}})
		return
	}
	e.safetyOb(st, "assert", x, x.X.Name()+".("+types.TypeString(x.AssertedType, func(p *types.Package) string { return p.Name() })+")", ok)
	e.define(x, val)
}

func (e *FEnc) sliceInstr(st *State, x *ssa.Slice) {
	v := e.valOf(x.X)
	get := func(o ssa.Value, d string) string {
		if o == nil {
			return d
		}
		return e.term(e.valOf(o))
	}
	switch t := x.X.Type().Underlying().(type) {
	case *types.Basic: // string
		s := e.term(v)
		lo := get(x.Low, "0")
		hi := get(x.High, fmt.Sprintf("(len_s %s)", s))
		e.safetyOb(st, "slice", x, sliceText(x), fmt.Sprintf("(and (<= 0 %s) (<= %s %s) (<= %s (len_s %s)))", lo, lo, hi, hi, s))
		e.define(x, e.termVal(e.substr(s, lo, hi), x.Type()))
	case *types.Slice:
		s := e.term(v)
		lo := get(x.Low, "0")
		hi := get(x.High, fmt.Sprintf("(sl_len %s)", s))
		mx := get(x.Max, fmt.Sprintf("(sl_cap %s)", s))
		e.safetyOb(st, "slice", x, sliceText(x), fmt.Sprintf("(and (<= 0 %s) (<= %s %s) (<= %s %s) (<= %s (sl_cap %s)))", lo, lo, hi, hi, mx, mx, s))
		nt := e.defTerm("sl", fmt.Sprintf("(mk_slice (sl_base %s) (+ (sl_off %s) %s) (- %s %s) (- %s %s))", s, s, lo, hi, lo, mx, lo), "Slice")
		e.define(x, &Val{Ty: x.Type(), Sort: "Slice", T: nt})
	case *types.Pointer:
		at := t.Elem().Underlying().(*types.Array)
		n := fmt.Sprint(at.Len())
		lo := get(x.Low, "0")
		hi := get(x.High, n)
		e.safetyOb(st, "slice", x, sliceText(x), fmt.Sprintf("(and (<= 0 %s) (<= %s %s) (<= %s %s))", lo, lo, hi, hi, n))
		p := e.ptrOf(v)
		if p.Root == rLocal && len(p.Path) == 0 && !e.allocs[p.Alloc].Weak {
			a := e.allocs[p.Alloc]
			base := fmt.Sprintf("loc_%d", p.Alloc)
			hn, hs := e.d.heapElem(at.Elem())
			if !a.Published {
				cell := st.cells[p.Alloc]
				h := e.heapGet(st, hn, hs)
				e.heapSet(st, hn, hs, fmt.Sprintf("(store %s %s %s)", h, base, e.term(cell)))
				a.Published = true
				a.Aliased = true
			}
			// the slice value remembers the local array it was cut from, so that what the array's elements
			// point to is found when the slice is handed to a callee
			e.define(x, &Val{Ty: x.Type(), Sort: "Slice", T: fmt.Sprintf("(mk_slice %s %s (- %s %s) (- %s %s))", base, lo, hi, lo, n, lo),
				Box: &Val{P: &Ptr{Root: rLocal, Alloc: p.Alloc, Elem: a.Ty}}})
			return
		}
		r := e.newVal(x.Type(), "asl")
		e.fact(eq(fmt.Sprintf("(sl_len %s)", r.T), fmt.Sprintf("(- %s %s)", hi, lo)))
		e.define(x, r)
	default:
		e.define(x, e.newVal(x.Type(), "slc"))
	}
}

func sliceText(x *ssa.Slice) string {
	n := func(v ssa.Value) string {
		if v == nil {
			return ""
		}
		return v.Name()
	}
	return fmt.Sprintf("%s[%s:%s]", x.X.Name(), n(x.Low), n(x.High))
}

func (e *FEnc) ret(st *State, x *ssa.Return) {
	var rs []*Val
	for _, r := range x.Results {
		rs = append(rs, e.valOf(r))
	}
	if e.fc == nil {
		return
	}
	nret := 0
	for _, c := range e.fc.Clauses {
		if c.Kind != "ensures" && c.Kind != "atreturn" {
			continue
		}
		if c.Trusted {
			continue // assumed at call sites (listed under trusted_base), not an obligation of the body
		}
		if !c.hasProp(e.prop) && e.prop != "" {
			continue
		}
		env := e.fnEnvAt(st, e.entry, x.Block(), len(x.Block().Instrs)-1)
		env.lenient = true
		e.bindResults(env, e.fn.Signature, rs)
		if c.When != nil {
			w, err := e.evalBool(env, c.When)
			if err != nil {
				e.unsupportedOnce(fmt.Sprintf("%s %q: %v", c.Kind, c.Src, err))
				continue
			}
			g, err := e.evalBool(env, c.Expr)
			if err != nil {
				// the clause mentions locals that do not exist yet at this return: the return must then be
				// one the clause does not apply to
				g = "false"
			}
			e.obligePart("post", clauseKey(c, c.Kind), c.Props, x.Pos(), c.Src, st.reach, implies(w, g))
			nret++
			continue
		}
		g, err := e.evalBool(env, c.Expr)
		if err != nil {
			e.unsupportedOnce(fmt.Sprintf("%s %q: %v", c.Kind, c.Src, err))
			continue
		}
		e.obligePart("post", clauseKey(c, c.Kind), c.Props, x.Pos(), c.Src, st.reach, g)
		nret++
	}
}

func (e *FEnc) unsupportedOnce(msg string) {
	for _, u := range e.unsupported {
		if u == msg {
			return
		}
	}
	e.unsupported = append(e.unsupported, msg)
}

// defersKeepHeap: every deferred call of the function is pure or carries a "frame none" contract.
func (e *FEnc) defersKeepHeap() bool {
	for _, b := range e.fn.Blocks {
		for _, in := range b.Instrs {
			if d, ok := in.(*ssa.Defer); ok {
				if !e.callKeepsHeap(&d.Call) {
					return false
				}
			}
		}
	}
	return true
}
