package main

// io.Copy(dst, src) uses src.WriteTo(dst) when src implements io.WriterTo and dst.ReadFrom(src) when dst implements
// io.ReaderFrom; only otherwise does it loop over src.Read and dst.Write, which is what the contracts on the
// repository's readers and writers describe. copyUpgrade reports whether a repository type has grown one of the two
// methods ("" = it has neither).

import (
	"fmt"
	"go/types"
	"strings"
)

func copyUpgrade(eng *Engine, name string) string {
	i := strings.LastIndex(name, ".")
	if i < 0 {
		return "type name without package"
	}
	pkgPath, tname := "github.com/versity/versitygw/"+name[:i], name[i+1:]
	for _, p := range eng.prog.AllPackages() {
		if p.Pkg.Path() != pkgPath {
			continue
		}
		obj := p.Pkg.Scope().Lookup(tname)
		tn, ok := obj.(*types.TypeName)
		if !ok {
			return "the type is no longer declared in " + name[:i]
		}
		ms := types.NewMethodSet(types.NewPointer(tn.Type()))
		for _, m := range []string{"ReadFrom", "WriteTo"} {
			if sel := ms.Lookup(p.Pkg, m); sel != nil {
				return fmt.Sprintf("the type now has a method %s, which io.Copy calls instead of Read / Write", m)
			}
		}
		return ""
	}
	return "package " + name[:i] + " is not loaded"
}
