#!/bin/bash
# usage: inpkg.sh <package dir relative to the repository> <test file> <-run pattern> [repo]
# Runs a test file inside a package of the repository through a build overlay (nothing is written to the repository).
export GOFLAGS=-mod=mod GOPROXY=off GOSUMDB=off GOTOOLCHAIN=local
unset AWS_CA_BUNDLE
REPO=${4:-/repo}
D=$(mktemp -d /tmp/inpkg.XXXXXX)
printf '{"Replace":{"%s/%s/zz_verif_inpkg_test.go":"%s"}}\n' "$REPO" "$1" "$2" > $D/ov.json
cd $REPO && go test -overlay $D/ov.json -vet=off -count=1 -timeout 900s -run "$3" ./$1/
rc=$?
rm -rf $D
exit $rc
