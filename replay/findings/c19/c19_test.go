// Demonstration for C19: a request that is answered with an error must not produce a notification.
// SendXMLResponse emitted the event before checking that the encoded body fits; the oversize case
// then answered 500.
package c19

import (
	"strings"
	"testing"

	"github.com/gofiber/fiber/v2"
	"github.com/valyala/fasthttp"
	"github.com/versity/versitygw/s3api/controllers"
	"github.com/versity/versitygw/s3event"
)

type recSender struct{ n int }

func (r *recSender) SendEvent(*fiber.Ctx, s3event.EventMeta) { r.n++ }
func (r *recSender) Close() error                           { return nil }

type big struct{ Data string }

func TestNoEventWhenResponseIsAnError(t *testing.T) {
	app := fiber.New()
	ctx := app.AcquireCtx(&fasthttp.RequestCtx{})
	defer app.ReleaseCtx(ctx)
	rec := &recSender{}
	resp := big{Data: strings.Repeat("x", 5<<20)} // encodes to more than the 4 MiB limit
	_ = controllers.SendXMLResponse(ctx, resp, nil, &controllers.MetaOpts{EvSender: rec, EventName: s3event.EventCompleteMultipartUpload})
	status := ctx.Response().StatusCode()
	if status >= 400 && rec.n != 0 {
		t.Fatalf("response status %d but %d event(s) were emitted", status, rec.n)
	}
}
