// Demonstration for C13: a Range header that is malformed or of an unsupported form must be answered
// with 200 and the entire object, never with 206.
package c13

import (
	"testing"

	"replay/gwtest"
)

func TestMalformedRangeIs200(t *testing.T) {
	g := gwtest.Start(t, gwtest.Options{})
	g.MustStatus(g.Put(g.RootC, "/bkt", nil, nil), 200, "create bucket")
	g.MustStatus(g.Put(g.RootC, "/bkt/obj", []byte("hello world"), nil), 200, "put")
	for _, rng := range []string{"garbage", "bytes=-3", "bytes=5-2", "lines=1-2", "bytes=1-2,4-5"} {
		r := g.Get(g.RootC, "/bkt/obj", map[string]string{"Range": rng})
		if r.Status != 200 || string(r.Body) != "hello world" || r.Header.Get("Content-Range") != "" {
			t.Errorf("Range %q: status %d, body %q, Content-Range %q; want 200 with the entire object", rng, r.Status, r.Body, r.Header.Get("Content-Range"))
		}
	}
	r := g.Get(g.RootC, "/bkt/obj", map[string]string{"Range": "bytes=2-4"})
	if r.Status != 206 || string(r.Body) != "llo" || r.Header.Get("Content-Range") != "bytes 2-4/11" || r.Header.Get("Content-Length") != "3" {
		t.Errorf("bytes=2-4: %d %q %q", r.Status, r.Body, r.Header.Get("Content-Range"))
	}
	r = g.Get(g.RootC, "/bkt/obj", map[string]string{"Range": "bytes=11-"})
	if r.Status != 416 {
		t.Errorf("bytes=11- on an 11 byte object: status %d, want 416", r.Status)
	}
}

// A directory object (key ending in "/") has no bytes. A range request on it was evaluated against the size of the
// directory inode and then forced to length 0: 206 with "Content-Range: bytes 0--1/0".
func TestRangeOnDirectoryObject(t *testing.T) {
	g := gwtest.Start(t, gwtest.Options{})
	g.MustStatus(g.Put(g.RootC, "/bkt", nil, nil), 200, "create bucket")
	g.MustStatus(g.Put(g.RootC, "/bkt/dir/", nil, nil), 200, "put directory object")
	r := g.Get(g.RootC, "/bkt/dir/", map[string]string{"Range": "bytes=0-10"})
	// the same answer as for an empty regular object: the first position lies beyond the end
	if r.Status != 416 {
		t.Errorf("bytes=0-10 on a directory object: status %d, Content-Range %q, Content-Length %q, %d body bytes; want 416",
			r.Status, r.Header.Get("Content-Range"), r.Header.Get("Content-Length"), len(r.Body))
	}
	if r := g.Get(g.RootC, "/bkt/dir/", nil); r.Status != 200 || len(r.Body) != 0 {
		t.Errorf("plain GET of a directory object: %d with %d bytes", r.Status, len(r.Body))
	}
}
