// Demonstrations for C14 findings (policy evaluation follows the policy language exactly).
package c14

import (
	"encoding/json"
	"testing"

	"github.com/versity/versitygw/auth"
)

// '*' matches any run of characters, also when the subject itself contains '*' or '?'.
func TestGlobStarMatchesLiteralStar(t *testing.T) {
	var r auth.Resources
	for _, c := range []struct{ p, s string }{{"*", "*x"}, {"bkt/*", "bkt/*x"}, {"bkt/a*", "bkt/a*b"}, {"*?", "*ab"}} {
		if !r.Match(c.p, c.s) {
			t.Errorf("Match(%q, %q) = false, want true", c.p, c.s)
		}
	}
}

// consequence: a Deny on bkt/* must also deny the key "*x" (a legal S3 key)
func TestDenyCoversKeysContainingStar(t *testing.T) {
	doc := []byte(`{"Statement":[{"Effect":"Allow","Principal":"user1","Action":"s3:GetObject","Resource":"arn:aws:s3:::bkt/?x"},{"Effect":"Deny","Principal":"user1","Action":"s3:GetObject","Resource":"arn:aws:s3:::bkt/*"}]}`)
	var pol auth.BucketPolicy
	if err := json.Unmarshal(doc, &pol); err != nil {
		t.Fatal(err)
	}
	if err := auth.VerifyBucketPolicy(doc, "user1", "bkt", "*x", auth.GetObjectAction); err == nil {
		t.Fatalf("Deny on bkt/* does not cover key %q: request allowed", "*x")
	}
}
