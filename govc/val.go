package main

// Engine-level values, pointers and the per-block symbolic state.

import (
	"fmt"
	"go/types"
	"strings"

	"golang.org/x/tools/go/ssa"
)

type Val struct {
	Ty     types.Type // Go type when known
	Sort   string     // SMT sort
	T      string     // materialised SMT term ("" for exploded structs / engine pointers / tuples)
	Fields []*Val     // exploded struct value
	P      *Ptr       // engine-level pointer
	Tup    []*Val     // tuple (multi-result call)
}

const (
	rLocal = iota
	rRef
	rElem
	rGlobal
)

type PathEl struct {
	Field int    // >= 0: struct field
	Index string // Field == -1: array index term
}

type Ptr struct {
	Root   int
	Alloc  int
	Ref    string     // rRef: pointer term
	Elem   types.Type // type of the root object
	Base   string     // rElem: backing array id (Ref term)
	Idx    string     // rElem: absolute index term
	Global *ssa.Global
	Path   []PathEl
}

func (p *Ptr) key() string {
	var b strings.Builder
	switch p.Root {
	case rLocal:
		fmt.Fprintf(&b, "L%d", p.Alloc)
	case rRef:
		fmt.Fprintf(&b, "R%s", p.Ref)
	case rElem:
		fmt.Fprintf(&b, "E%s@%s", p.Base, p.Idx)
	case rGlobal:
		fmt.Fprintf(&b, "G%s", p.Global.String())
	}
	for _, e := range p.Path {
		if e.Field >= 0 {
			fmt.Fprintf(&b, ".%d", e.Field)
		} else {
			fmt.Fprintf(&b, "[%s]", e.Index)
		}
	}
	return b.String()
}

func (p *Ptr) extend(el PathEl) *Ptr {
	q := *p
	q.Path = append(append([]PathEl{}, p.Path...), el)
	return &q
}

type AllocInfo struct {
	ID     int
	Ty     types.Type // pointee type
	Instr  *ssa.Alloc
	Name   string
	Leaked bool // address was turned into a term (passed to a call, stored, merged)
	Weak   bool // contents no longer tracked (reads give arbitrary values)
	Published bool // array published to the element heap via a Slice instruction
}

type State struct {
	reach string
	cells map[int]*Val
	heap  map[string]string
	epoch int
}

func (s *State) clone() *State {
	n := &State{reach: s.reach, epoch: s.epoch, cells: make(map[int]*Val, len(s.cells)), heap: make(map[string]string, len(s.heap))}
	for k, v := range s.cells {
		n.cells[k] = v
	}
	for k, v := range s.heap {
		n.heap[k] = v
	}
	return n
}

func sameVal(a, b *Val) bool {
	if a == b {
		return true
	}
	if a == nil || b == nil {
		return false
	}
	if a.T != "" && a.T == b.T {
		return true
	}
	if a.P != nil && b.P != nil && a.P.key() == b.P.key() {
		return true
	}
	if a.Fields != nil && b.Fields != nil && len(a.Fields) == len(b.Fields) {
		for i := range a.Fields {
			if !sameVal(a.Fields[i], b.Fields[i]) {
				return false
			}
		}
		return true
	}
	return false
}
