package main

// Replay of verifier counterexamples against the real code (go test -overlay, nothing written into /repo).

func tryReplay(eng *Engine, o *Obligation) (string, bool) {
	return "", false
}
