// Demonstration for C08: an open-ended copy-source range "bytes=N-" selects the bytes N..size-1.
package c08

import (
	"testing"

	"github.com/versity/versitygw/backend"
)

func TestOpenEndedCopySourceRange(t *testing.T) {
	start, length, err := backend.ParseCopySourceRange(10, "bytes=3-")
	if err != nil || start != 3 || length != 7 {
		t.Fatalf("ParseCopySourceRange(10, \"bytes=3-\") = (%d, %d, %v), want (3, 7, nil): the range reaches beyond the source object", start, length, err)
	}
	start, length, err = backend.ParseCopySourceRange(10, "bytes=0-")
	if err != nil || start != 0 || length != 10 {
		t.Fatalf("ParseCopySourceRange(10, \"bytes=0-\") = (%d, %d, %v), want (0, 10, nil)", start, length, err)
	}
}
