package main

// Contract files. In /repo: <pkg>/zz_contracts_verif.go (build tag verif), lines starting with //@ .
// Trusted contracts: /verif/contracts/trusted/*.spec, same clauses without the //@ prefix.
//
//   func Name | func (Recv) Name | func Outer$1 | func import/path.Name | func (import/path.Recv) Name
//   iface import/path.Type.Method
//     pure
//     requires {P1,P2} [label] E
//     ensures  {P1} [label] E
//     loop K invariant {P} [label] E
//     loop K decreases {P} E, E
//     at-call PAT {P} [label] [when C ::] requires E
//     at-return {P} [label] ensures E           (may mention locals)
//     noinline | inline
//   ghost func name(a T, b T) R [= E]
//   ghost axiom name: E
//   lemma name(a T, ...) {P} requires E ensures E [induction E]   (single line; several requires/ensures allowed)

import (
	"bufio"
	"fmt"
	"os"
	"path/filepath"
	"regexp"
	"strconv"
	"strings"
)

type Clause struct {
	Kind     string // requires ensures invariant decreases atcall atreturn
	Props    []string
	Label    string
	Expr     *Ex
	Exprs    []*Ex // decreases tuple
	Src      string
	Loop     int
	Pat      string
	When     *Ex
	Ord      int
	File     string
	Line     int
	Trusted  bool
	Optional bool // at-call? : the clause may match no call site (e.g. it forbids a call)
}

type FuncContract struct {
	Key           string
	PkgPath       string // package of the contract file ("" for trusted specs: names are fully qualified)
	Recv          string
	Name          string
	Iface         bool
	Trusted       bool
	Pure          bool
	Inline        bool
	NoHavoc       bool     // "frame none": call does not modify the heap (but result is not a function of args)
	ArithAssumed  bool     // no overflow obligations for this function (results wrap as in Go)
	Modifies      []string // "maps", "elems", "fields", "ptrs": the only heap classes the callee may change
	PreservesArgs bool     // "preserves-args": the callee does not write through pointers reachable from its arguments
	Clauses       []*Clause
	File          string
	Line          int
	Resolved      bool
	Lets          map[string]*Ex // block-level abbreviations, substituted syntactically
}

type Ghost struct {
	Name    string
	Params  []BVar
	Ret     string
	Body    *Ex
	Src     string
	File    string
	Line    int
	PkgPath string
}

type Axiom struct {
	Name    string
	Expr    *Ex
	Src     string
	File    string
	Line    int
	Trusted bool
	PkgPath string
}

type Lemma struct {
	Name      string
	Params    []BVar
	Props     []string
	Requires  []*Ex
	Ensures   []*Ex
	Induction *Ex
	Triggers  []*Ex
	Src       string
	File      string
	Line      int
	PkgPath   string
}

type Contracts struct {
	NonNilParams []string // parameter types (as printed by go/types) assumed non-nil, from trusted specs
	NonNilFields map[string]bool // "<named type string>.<field>" assumed non-nil when loaded, from trusted specs
	Funcs      []*FuncContract
	Ghosts     map[string]*Ghost
	GhostOrder []string
	Axioms     []*Axiom
	Lemmas     []*Lemma
}

func newContracts() *Contracts { return &Contracts{Ghosts: map[string]*Ghost{}} }

var (
	rePropTag = regexp.MustCompile(`^\{([A-Za-z0-9, ]+)\}\s*`)
	reLabel   = regexp.MustCompile(`^\[([A-Za-z0-9_\-./]+)\]\s*`)
	reFuncHdr = regexp.MustCompile(`^func\s+(?:\(([^)]+)\)\s*)?(\S+)$`)
	reGhostFn = regexp.MustCompile(`^ghost\s+func\s+([A-Za-z0-9_]+)\s*\(([^)]*)\)\s*([A-Za-z0-9_.*\[\]]+)\s*(?:=\s*(.*))?$`)
	reAxiom   = regexp.MustCompile(`^ghost\s+axiom\s+([A-Za-z0-9_]+)\s*:\s*(.*)$`)
	reLemma   = regexp.MustCompile(`^lemma\s+([A-Za-z0-9_]+)\s*\(([^)]*)\)\s*(.*)$`)
)

func takeProps(s string) ([]string, string) {
	m := rePropTag.FindStringSubmatch(s)
	if m == nil {
		return nil, s
	}
	var ps []string
	for _, p := range strings.Split(m[1], ",") {
		ps = append(ps, strings.TrimSpace(p))
	}
	return ps, s[len(m[0]):]
}

func takeLabel(s string) (string, string) {
	m := reLabel.FindStringSubmatch(s)
	if m == nil {
		return "", s
	}
	return m[1], s[len(m[0]):]
}

func parseParams(s string) ([]BVar, error) {
	var out []BVar
	s = strings.TrimSpace(s)
	if s == "" {
		return nil, nil
	}
	for _, part := range strings.Split(s, ",") {
		f := strings.Fields(part)
		if len(f) != 2 {
			return nil, fmt.Errorf("bad parameter %q", part)
		}
		out = append(out, BVar{f[0], f[1]})
	}
	// Go style "a, b int" is not supported: each needs a type
	return out, nil
}

// splitKeyword splits "requires A ensures B induction C" into keyword-tagged parts.
func splitKeyword(s string, kws ...string) [][2]string {
	type hit struct {
		pos int
		kw  string
	}
	var hits []hit
	for _, kw := range kws {
		re := regexp.MustCompile(`(^|\s)` + kw + `\s`)
		for _, loc := range re.FindAllStringIndex(s, -1) {
			p := loc[0]
			if s[p] == ' ' || s[p] == '\t' {
				p++
			}
			hits = append(hits, hit{p, kw})
		}
	}
	for i := range hits {
		for j := i + 1; j < len(hits); j++ {
			if hits[j].pos < hits[i].pos {
				hits[i], hits[j] = hits[j], hits[i]
			}
		}
	}
	var out [][2]string
	for i, h := range hits {
		end := len(s)
		if i+1 < len(hits) {
			end = hits[i+1].pos
		}
		out = append(out, [2]string{h.kw, strings.TrimSpace(s[h.pos+len(h.kw) : end])})
	}
	return out
}

func (cs *Contracts) parseLines(lines []string, lineNos []int, file, pkgPath string, trusted bool) error {
	var cur *FuncContract
	ord := map[string]int{}
	// join continuations
	var jl []string
	var jn []int
	for i := 0; i < len(lines); i++ {
		l := strings.TrimSpace(lines[i])
		n := lineNos[i]
		for strings.HasSuffix(l, "\\") && i+1 < len(lines) {
			i++
			l = strings.TrimSuffix(l, "\\") + " " + strings.TrimSpace(lines[i])
		}
		jl = append(jl, l)
		jn = append(jn, n)
	}
	for i, l := range jl {
		ln := jn[i]
		errf := func(f string, a ...any) error {
			return fmt.Errorf("%s:%d: %s", file, ln, fmt.Sprintf(f, a...))
		}
		if l == "" || strings.HasPrefix(l, "#") || strings.HasPrefix(l, "--") {
			continue
		}
		switch {
		case strings.HasPrefix(l, "func "):
			m := reFuncHdr.FindStringSubmatch(l)
			if m == nil {
				return errf("bad func header %q", l)
			}
			cur = &FuncContract{Key: l, PkgPath: pkgPath, Recv: strings.TrimPrefix(strings.TrimSpace(m[1]), "*"), Name: m[2], Trusted: trusted, File: file, Line: ln}
			cs.Funcs = append(cs.Funcs, cur)
			ord = map[string]int{}
		case strings.HasPrefix(l, "iface "):
			name := strings.TrimSpace(strings.TrimPrefix(l, "iface "))
			cur = &FuncContract{Key: l, PkgPath: pkgPath, Name: name, Iface: true, Trusted: trusted, File: file, Line: ln}
			cs.Funcs = append(cs.Funcs, cur)
			ord = map[string]int{}
		case strings.HasPrefix(l, "assume nonnil field "):
			if !trusted {
				return errf("assumptions are only allowed in trusted specs")
			}
			if cs.NonNilFields == nil {
				cs.NonNilFields = map[string]bool{}
			}
			cs.NonNilFields[strings.TrimSpace(strings.TrimPrefix(l, "assume nonnil field "))] = true
			cur = nil
		case strings.HasPrefix(l, "assume nonnil param "):
			if !trusted {
				return errf("assumptions are only allowed in trusted specs")
			}
			cs.NonNilParams = append(cs.NonNilParams, strings.TrimSpace(strings.TrimPrefix(l, "assume nonnil param ")))
			cur = nil
		case strings.HasPrefix(l, "ghost func "):
			m := reGhostFn.FindStringSubmatch(l)
			if m == nil {
				return errf("bad ghost func %q", l)
			}
			ps, err := parseParams(m[2])
			if err != nil {
				return errf("%v", err)
			}
			g := &Ghost{Name: m[1], Params: ps, Ret: m[3], Src: l, File: file, Line: ln, PkgPath: pkgPath}
			if strings.TrimSpace(m[4]) != "" {
				b, err := parseExpr(m[4])
				if err != nil {
					return errf("%v", err)
				}
				g.Body = b
			}
			if _, dup := cs.Ghosts[g.Name]; dup {
				return errf("duplicate ghost %s", g.Name)
			}
			cs.Ghosts[g.Name] = g
			cs.GhostOrder = append(cs.GhostOrder, g.Name)
			cur = nil
		case strings.HasPrefix(l, "ghost axiom "):
			m := reAxiom.FindStringSubmatch(l)
			if m == nil {
				return errf("bad axiom %q", l)
			}
			if !trusted {
				return errf("axioms are only allowed in trusted specs")
			}
			e, err := parseExpr(m[2])
			if err != nil {
				return errf("%v", err)
			}
			cs.Axioms = append(cs.Axioms, &Axiom{Name: m[1], Expr: e, Src: m[2], File: file, Line: ln, Trusted: trusted, PkgPath: pkgPath})
			cur = nil
		case strings.HasPrefix(l, "lemma "):
			m := reLemma.FindStringSubmatch(l)
			if m == nil {
				return errf("bad lemma %q", l)
			}
			ps, err := parseParams(m[2])
			if err != nil {
				return errf("%v", err)
			}
			rest := m[3]
			props, rest := takeProps(rest)
			lm := &Lemma{Name: m[1], Params: ps, Props: props, Src: l, File: file, Line: ln, PkgPath: pkgPath}
			for _, part := range splitKeyword(rest, "requires", "ensures", "induction", "trigger") {
				if part[0] == "trigger" {
					for _, tsrc := range splitTop(part[1], ',') {
						te, err := parseExpr(tsrc)
						if err != nil {
							return errf("%v", err)
						}
						lm.Triggers = append(lm.Triggers, te)
					}
					continue
				}
				e, err := parseExpr(part[1])
				if err != nil {
					return errf("%v", err)
				}
				switch part[0] {
				case "requires":
					lm.Requires = append(lm.Requires, e)
				case "ensures":
					lm.Ensures = append(lm.Ensures, e)
				case "induction":
					lm.Induction = e
				}
			}
			cs.Lemmas = append(cs.Lemmas, lm)
			cur = nil
		default:
			if cur == nil {
				return errf("clause outside a func block: %q", l)
			}
			c := &Clause{File: file, Line: ln, Trusted: trusted}
			rest := l
			switch {
			case strings.HasPrefix(l, "let "):
				parts := strings.SplitN(l[4:], "=", 2)
				if len(parts) != 2 {
					return errf("bad let")
				}
				le, err := parseExpr(strings.TrimSpace(parts[1]))
				if err != nil {
					return errf("%v", err)
				}
				if cur.Lets == nil {
					cur.Lets = map[string]*Ex{}
				}
				cur.Lets[strings.TrimSpace(parts[0])] = substLets(le, cur.Lets)
				continue
			case l == "pure":
				cur.Pure = true
				continue
			case l == "inline":
				cur.Inline = true
				continue
			case strings.HasPrefix(l, "modifies "):
				cur.Modifies = append(cur.Modifies, strings.Fields(l[len("modifies "):])...)
				continue
			case l == "arith assumed":
				cur.ArithAssumed = true
				continue
			case l == "frame none":
				cur.NoHavoc = true
				continue
			case l == "preserves-args":
				cur.PreservesArgs = true
				continue
			case strings.HasPrefix(l, "requires "):
				c.Kind, rest = "requires", l[len("requires "):]
			case strings.HasPrefix(l, "ensures "):
				c.Kind, rest = "ensures", l[len("ensures "):]
			case strings.HasPrefix(l, "loop "):
				f := strings.Fields(l)
				if len(f) < 4 {
					return errf("bad loop clause")
				}
				k, err := strconv.Atoi(f[1])
				if err != nil {
					return errf("bad loop ordinal")
				}
				c.Loop = k
				if f[2] == "iteration" && len(f) > 4 && f[3] == "ensures" {
					// loop k iteration ensures E: E holds at the end of every iteration (at every back edge), stated
					// over the variables of that iteration and the calls made in it
					c.Kind = "iterensures"
					idx := strings.Index(l, "iteration ensures")
					rest = strings.TrimSpace(l[idx+len("iteration ensures"):])
					break
				}
				if f[2] != "invariant" && f[2] != "decreases" {
					return errf("loop clause must be invariant, decreases or iteration ensures")
				}
				c.Kind = f[2]
				idx := strings.Index(l, f[2])
				rest = strings.TrimSpace(l[idx+len(f[2]):])
			case strings.HasPrefix(l, "at-call? "):
				c.Kind = "atcall"
				c.Optional = true
				rest = strings.TrimSpace(l[len("at-call? "):])
				sp := strings.IndexAny(rest, " \t")
				if sp < 0 {
					return errf("bad at-call")
				}
				c.Pat, rest = rest[:sp], strings.TrimSpace(rest[sp:])
			case strings.HasPrefix(l, "at-call "):
				c.Kind = "atcall"
				rest = strings.TrimSpace(l[len("at-call "):])
				sp := strings.IndexAny(rest, " \t")
				if sp < 0 {
					return errf("bad at-call")
				}
				c.Pat, rest = rest[:sp], strings.TrimSpace(rest[sp:])
			case strings.HasPrefix(l, "after-call "):
				// after-call PAT {P} [label] invariant E — proof rule for higher-order callees, see FEnc.afterCall
				c.Kind = "aftercall"
				rest = strings.TrimSpace(l[len("after-call "):])
				sp := strings.IndexAny(rest, " \t")
				if sp < 0 {
					return errf("bad after-call")
				}
				c.Pat, rest = rest[:sp], strings.TrimSpace(rest[sp:])
			case strings.HasPrefix(l, "at-return "):
				c.Kind = "atreturn"
				rest = strings.TrimSpace(l[len("at-return "):])
			default:
				return errf("unknown clause %q", l)
			}
			c.Props, rest = takeProps(rest)
			c.Label, rest = takeLabel(rest)
			if c.Kind == "atcall" || c.Kind == "atreturn" {
				if strings.HasPrefix(rest, "when ") {
					idx := strings.Index(rest, " :: ")
					if idx < 0 {
						return errf("when needs ' :: '")
					}
					w, err := parseExpr(rest[len("when "):idx])
					if err != nil {
						return errf("%v", err)
					}
					c.When = w
					rest = strings.TrimSpace(rest[idx+4:])
				}
				kw := "requires "
				if c.Kind == "atreturn" {
					kw = "ensures "
				}
				if !strings.HasPrefix(rest, kw) {
					return errf("expected %q in %q", kw, rest)
				}
				rest = rest[len(kw):]
			}
			if c.Kind == "aftercall" {
				if !strings.HasPrefix(rest, "invariant ") {
					return errf("expected \"invariant \" in %q", rest)
				}
				rest = rest[len("invariant "):]
			}
			c.Src = rest
			if c.Kind == "decreases" {
				for _, part := range splitTop(rest, ',') {
					e, err := parseExpr(part)
					if err != nil {
						return errf("%v", err)
					}
					c.Exprs = append(c.Exprs, e)
				}
			} else {
				e, err := parseExpr(rest)
				if err != nil {
					return errf("%v", err)
				}
				c.Expr = substLets(e, cur.Lets)
			}
			if c.When != nil {
				c.When = substLets(c.When, cur.Lets)
			}
			for i := range c.Exprs {
				c.Exprs[i] = substLets(c.Exprs[i], cur.Lets)
			}
			k := c.Kind
			if c.Kind == "invariant" || c.Kind == "decreases" || c.Kind == "iterensures" {
				k = fmt.Sprintf("loop%d-%s", c.Loop, c.Kind)
			}
			if c.Kind == "atcall" {
				k = "atcall(" + c.Pat + ")"
			}
			ord[k]++
			c.Ord = ord[k]
			cur.Clauses = append(cur.Clauses, c)
		}
	}
	return nil
}

func splitTop(s string, sep byte) []string {
	var out []string
	d := 0
	st := 0
	inStr := false
	for i := 0; i < len(s); i++ {
		c := s[i]
		if inStr {
			if c == '\\' {
				i++
			} else if c == '"' {
				inStr = false
			}
			continue
		}
		switch c {
		case '"':
			inStr = true
		case '(', '[':
			d++
		case ')', ']':
			d--
		default:
			if c == sep && d == 0 {
				out = append(out, strings.TrimSpace(s[st:i]))
				st = i + 1
			}
		}
	}
	out = append(out, strings.TrimSpace(s[st:]))
	return out
}

// loadRepoContracts reads //@ lines of a Go file.
func (cs *Contracts) loadGoFile(path, pkgPath string) error {
	f, err := os.Open(path)
	if err != nil {
		return err
	}
	defer f.Close()
	var lines []string
	var nos []int
	sc := bufio.NewScanner(f)
	sc.Buffer(make([]byte, 1<<20), 1<<20)
	n := 0
	for sc.Scan() {
		n++
		t := strings.TrimSpace(sc.Text())
		if strings.HasPrefix(t, "//@") {
			lines = append(lines, strings.TrimPrefix(t, "//@"))
			nos = append(nos, n)
		}
	}
	return cs.parseLines(lines, nos, path, pkgPath, false)
}

func (cs *Contracts) loadSpecDir(dir string) ([]string, error) {
	files, _ := filepath.Glob(filepath.Join(dir, "*.spec"))
	var all []string
	for _, p := range files {
		b, err := os.ReadFile(p)
		if err != nil {
			return nil, err
		}
		lines := strings.Split(string(b), "\n")
		nos := make([]int, len(lines))
		for i := range nos {
			nos[i] = i + 1
		}
		if err := cs.parseLines(lines, nos, p, "", true); err != nil {
			return nil, err
		}
		for _, l := range lines {
			t := strings.TrimSpace(l)
			if t != "" && !strings.HasPrefix(t, "#") && !strings.HasPrefix(t, "--") {
				all = append(all, filepath.Base(p)+": "+t)
			}
		}
	}
	return all, nil
}

func (c *Clause) hasProp(p string) bool {
	if p == "" {
		return true
	}
	for _, x := range c.Props {
		if x == p {
			return true
		}
	}
	return false
}

func substLets(e *Ex, lets map[string]*Ex) *Ex {
	if e == nil || len(lets) == 0 {
		return e
	}
	if e.Op == "id" {
		if r, ok := lets[e.Name]; ok {
			return r
		}
		return e
	}
	if e.Op == "call" && strings.Contains(e.Name, ".") {
		segs := strings.Split(e.Name, ".")
		if r, ok := lets[segs[0]]; ok {
			recv := r
			for _, sname := range segs[1 : len(segs)-1] {
				recv = &Ex{Op: "sel", Name: sname, Args: []*Ex{recv}, Pos: e.Pos}
			}
			m := &Ex{Op: "mcall", Name: segs[len(segs)-1], Args: []*Ex{recv}, Pos: e.Pos}
			for _, a := range e.Args {
				m.Args = append(m.Args, substLets(a, lets))
			}
			return m
		}
	}
	n := *e
	n.Args = make([]*Ex, len(e.Args))
	for i, a := range e.Args {
		n.Args[i] = substLets(a, lets)
	}
	return &n
}
