// Demonstrations for C03 findings: each test states the property on a concrete history and fails
// on a tree where the defect is present. One gateway per test process (posix.New does chdir), so
// run them one at a time: go test -run '^TestX$'.
package c03

import (
	"context"
	"fmt"
	"strings"
	"testing"

	"github.com/aws/aws-sdk-go-v2/service/s3"
	"github.com/versity/versitygw/auth"
	"github.com/versity/versitygw/backend"
	"replay/gwtest"
)

func policy(stmts ...string) []byte {
	return []byte(`{"Statement":[` + strings.Join(stmts, ",") + `]}`)
}
func stmt(effect, principal, action, resource string) string {
	return fmt.Sprintf(`{"Effect":%q,"Principal":%q,"Action":%q,"Resource":%q}`, effect, principal, action, resource)
}

// A policy that allows s3:PutObjectTagging on the key must let the user tag the object (and one that
// allows only s3:PutBucketTagging must not).
func TestPutObjectTaggingUsesObjectAction(t *testing.T) {
	g := gwtest.Start(t, gwtest.Options{})
	u := g.AddUser("user1", "secret1", auth.RoleUser)
	g.MustStatus(g.Put(g.RootC, "/bkt", nil, nil), 200, "create bucket")
	g.MustStatus(g.Put(g.RootC, "/bkt/obj", []byte("x"), nil), 200, "put")
	g.MustStatus(g.Put(g.RootC, "/bkt?policy", policy(stmt("Allow", "user1", "s3:PutObjectTagging", "arn:aws:s3:::bkt/obj")), nil), 200, "put policy")
	body := []byte(`<Tagging><TagSet><Tag><Key>a</Key><Value>b</Value></Tag></TagSet></Tagging>`)
	r := g.Put(u, "/bkt/obj?tagging", body, nil)
	if r.Status != 200 {
		t.Fatalf("policy allows s3:PutObjectTagging on bkt/obj, PutObjectTagging answered %s", r)
	}
	g.MustStatus(g.Put(g.RootC, "/bkt?policy", policy(stmt("Allow", "user1", "s3:PutBucketTagging", "arn:aws:s3:::bkt")), nil), 200, "put policy 2")
	r = g.Put(u, "/bkt/obj?tagging", body, nil)
	if r.Status != 403 {
		t.Fatalf("policy allows only s3:PutBucketTagging, PutObjectTagging answered %s", r)
	}
}

// Batch delete decides per key: a key the policy does not allow to delete must survive.
func TestDeleteObjectsDecidesPerKey(t *testing.T) {
	g := gwtest.Start(t, gwtest.Options{})
	u := g.AddUser("user1", "secret1", auth.RoleUser)
	g.MustStatus(g.Put(g.RootC, "/bkt", nil, nil), 200, "create bucket")
	g.MustStatus(g.Put(g.RootC, "/bkt/private/x", []byte("x"), nil), 200, "put")
	g.MustStatus(g.Put(g.RootC, "/bkt/public/y", []byte("y"), nil), 200, "put")
	g.MustStatus(g.Put(g.RootC, "/bkt?policy", policy(
		stmt("Allow", "user1", "s3:*", "arn:aws:s3:::bkt"),
		stmt("Allow", "user1", "s3:DeleteObject", "arn:aws:s3:::bkt/public/*")), nil), 200, "put policy")
	if r := g.Delete(u, "/bkt/private/x", nil); r.Status != 403 {
		t.Fatalf("single delete of private/x: %s", r)
	}
	body := []byte(`<Delete><Object><Key>private/x</Key></Object></Delete>`)
	g.Post(u, "/bkt?delete", body, nil)
	if r := g.Get(g.RootC, "/bkt/private/x", nil); r.Status != 200 {
		t.Fatalf("private/x was removed by a batch delete although the policy does not allow deleting it: GET answers %s", r)
	}
}

// aclRecorder is the posix backend with PutObjectAcl recording instead of answering NotImplemented
// (posix does not store object ACLs; the s3proxy backend forwards the call).
type aclRecorder struct {
	backend.Backend
	calls int
}

func (a *aclRecorder) PutObjectAcl(context.Context, *s3.PutObjectAclInput) error {
	a.calls++
	return nil
}

// PutObjectAcl needs an access decision (WRITE_ACP / s3:PutObjectAcl).
func TestPutObjectAclIsDecided(t *testing.T) {
	rec := &aclRecorder{}
	g := gwtest.Start(t, gwtest.Options{Wrap: func(b backend.Backend) backend.Backend { rec.Backend = b; return rec }})
	u := g.AddUser("user1", "secret1", auth.RoleUser)
	g.MustStatus(g.Put(g.RootC, "/bkt", nil, nil), 200, "create bucket")
	g.MustStatus(g.Put(g.RootC, "/bkt/obj", []byte("x"), nil), 200, "put")
	r := g.Put(u, "/bkt/obj?acl", nil, map[string]string{"X-Amz-Acl": "public-read"})
	if r.Status != 403 || rec.calls != 0 {
		t.Fatalf("user1 has no grant and no policy on bkt; PutObjectAcl answered %d and reached the backend %d time(s)", r.Status, rec.calls)
	}
}

// HEAD of a specific version needs s3:GetObjectVersion, like GET.
func TestHeadObjectVersionAction(t *testing.T) {
	g := gwtest.Start(t, gwtest.Options{Versioning: true})
	u := g.AddUser("user1", "secret1", auth.RoleUser)
	g.MustStatus(g.Put(g.RootC, "/bkt", nil, nil), 200, "create bucket")
	g.MustStatus(g.Put(g.RootC, "/bkt?versioning", []byte(`<VersioningConfiguration><Status>Enabled</Status></VersioningConfiguration>`), nil), 200, "versioning")
	r := g.Put(g.RootC, "/bkt/obj", []byte("v1"), nil)
	g.MustStatus(r, 200, "put")
	vid := r.Header.Get("X-Amz-Version-Id")
	g.MustStatus(g.Put(g.RootC, "/bkt?policy", policy(stmt("Allow", "user1", "s3:GetObject", "arn:aws:s3:::bkt/obj")), nil), 200, "put policy")
	if r := g.Get(u, "/bkt/obj?versionId="+vid, nil); r.Status != 403 {
		t.Fatalf("GET by version without s3:GetObjectVersion: %s", r)
	}
	if r := g.Head(u, "/bkt/obj?versionId="+vid); r.Status != 403 {
		t.Fatalf("HEAD by version without s3:GetObjectVersion answered %d (GET answers 403)", r.Status)
	}
}

// The copy source that is authorized must be the object that is read: a Deny on src/secret must hold
// when the source is spelled with a ?versionId= suffix or a leading slash.
func TestCopySourceAuthorizedAsRead(t *testing.T) {
	g := gwtest.Start(t, gwtest.Options{})
	u := g.AddUser("user1", "secret1", auth.RoleUser)
	g.MustStatus(g.Put(g.RootC, "/src", nil, nil), 200, "create src")
	g.MustStatus(g.Put(g.RootC, "/dst", nil, nil), 200, "create dst")
	g.MustStatus(g.Put(g.RootC, "/src/secret", []byte("top secret"), nil), 200, "put")
	g.MustStatus(g.Put(g.RootC, "/src?policy", policy(
		stmt("Allow", "user1", "s3:GetObject", "arn:aws:s3:::src/*"),
		stmt("Deny", "user1", "s3:GetObject", "arn:aws:s3:::src/secret")), nil), 200, "policy src")
	g.MustStatus(g.Put(g.RootC, "/dst?policy", policy(stmt("Allow", "user1", "s3:*", "arn:aws:s3:::dst/*")), nil), 200, "policy dst")
	if r := g.Get(u, "/src/secret", nil); r.Status != 403 {
		t.Fatalf("GET src/secret: %s", r)
	}
	if r := g.Put(u, "/dst/copy0", nil, map[string]string{"X-Amz-Copy-Source": "src/secret"}); r.Status != 403 {
		t.Fatalf("plain copy of src/secret: %s", r)
	}
	g.Put(u, "/dst/copy1", nil, map[string]string{"X-Amz-Copy-Source": "src/secret?versionId="})
	if r := g.Get(u, "/dst/copy1", nil); r.Status == 200 && strings.Contains(string(r.Body), "top secret") {
		t.Fatalf("user1 is denied s3:GetObject on src/secret but obtained its content through CopyObject with source %q", "src/secret?versionId=")
	}
}

// An ACL WRITE grant (permission to create and delete objects) lets the
// grantee write the bucket policy. He grants himself s3:* and denies the owner: the bucket is taken over.
func TestAclWriteGranteeCannotWriteTheBucketPolicy(t *testing.T) {
	g := gwtest.Start(t, gwtest.Options{})
	alice := g.AddUser("alice", "alicesecret", auth.RoleUserPlus)
	bob := g.AddUser("bob", "bobsecret", auth.RoleUser)
	g.MustStatus(g.Put(alice, "/abk", nil, map[string]string{"X-Amz-Object-Ownership": "BucketOwnerPreferred"}), 200, "alice creates her bucket")
	g.MustStatus(g.Put(alice, "/abk?acl", nil, map[string]string{"X-Amz-Grant-Write": "bob"}), 200, "alice grants bob WRITE")
	g.MustStatus(g.Put(alice, "/abk/private", []byte("alice-private"), nil), 200, "alice puts an object")
	if r := g.Get(bob, "/abk/private", nil); r.Status/100 == 2 {
		t.Fatalf("bob has no READ grant, yet GET answered %d", r.Status)
	}
	pol := policy(stmt("Allow", "bob", "s3:*", "arn:aws:s3:::abk"), stmt("Allow", "bob", "s3:*", "arn:aws:s3:::abk/*"),
		stmt("Deny", "alice", "s3:*", "arn:aws:s3:::abk"), stmt("Deny", "alice", "s3:*", "arn:aws:s3:::abk/*"))
	r := g.Put(bob, "/abk?policy", pol, nil)
	got := g.Get(bob, "/abk/private", nil)
	own := g.Get(alice, "/abk/private", nil)
	if r.Status/100 == 2 || got.Status/100 == 2 {
		t.Errorf("bob (ACL WRITE only) PUT ?policy: %d; he now reads the owner's object: %d %q; the owner's own GET answers %d", r.Status, got.Status, got.Body, own.Status)
	}
}

// Tags sent with PutObject (x-amz-tagging) were written although the policy denies the caller s3:PutObjectTagging.
func TestTagsOnPutObjectNeedTheTaggingPermission(t *testing.T) {
	g := gwtest.Start(t, gwtest.Options{})
	u := g.AddUser("user1", "secret1", auth.RoleUser)
	g.MustStatus(g.Put(g.RootC, "/bkt", nil, nil), 200, "create bucket")
	g.MustStatus(g.Put(g.RootC, "/bkt?policy", policy(stmt("Allow", "user1", "s3:PutObject", "arn:aws:s3:::bkt/*"),
		stmt("Allow", "user1", "s3:GetObjectTagging", "arn:aws:s3:::bkt/*"), stmt("Deny", "user1", "s3:PutObjectTagging", "arn:aws:s3:::bkt/*")), nil), 200, "put policy")
	if r := g.Put(u, "/bkt/plain", []byte("x"), nil); r.Status != 200 {
		t.Fatalf("PutObject without tags is allowed by the policy: %s", r)
	}
	r := g.Put(u, "/bkt/tagged", []byte("x"), map[string]string{"X-Amz-Tagging": "a=b"})
	tg := g.Get(g.RootC, "/bkt/tagged?tagging", nil)
	if r.Status/100 == 2 || strings.Contains(string(tg.Body), "<Key>a</Key>") {
		t.Errorf("PutObject with x-amz-tagging although s3:PutObjectTagging is denied: %d; tags now: %d %s", r.Status, tg.Status, tg.Body)
	}
}

// A key with a trailing "/" names a directory object, never the file of the same name without it. The access decision was
// taken for "secret/" and the tags, legal hold and retention were read and written on the file "secret" (the path is
// joined for the attribute store and the separator falls away): an object-level Deny on bkt/secret was no obstacle.
func TestTrailingSlashDoesNotReachTheAttributesOfTheFile(t *testing.T) {
	g := gwtest.Start(t, gwtest.Options{})
	u := g.AddUser("user1", "secret1", auth.RoleUser)
	g.MustStatus(g.Put(g.RootC, "/bkt", nil, nil), 200, "create bucket")
	g.MustStatus(g.Put(g.RootC, "/bkt/secret", []byte("x"), nil), 200, "put secret")
	g.MustStatus(g.Put(g.RootC, "/bkt/secret?tagging", []byte(`<Tagging><TagSet><Tag><Key>k</Key><Value>v</Value></Tag></TagSet></Tagging>`), nil), 200, "tag secret")
	g.MustStatus(g.Put(g.RootC, "/bkt?policy", policy(stmt("Allow", "user1", "s3:*", "arn:aws:s3:::bkt/*"), stmt("Deny", "user1", "s3:*", "arn:aws:s3:::bkt/secret")), nil), 200, "put policy")
	if r := g.Get(u, "/bkt/secret?tagging", nil); r.Status != 403 {
		t.Fatalf("the Deny on bkt/secret does not hold for ?tagging: %v", r)
	}
	if r := g.Get(u, "/bkt/secret/?tagging", nil); r.Status == 200 && strings.Contains(string(r.Body), "<Key>k</Key>") {
		t.Errorf("GET /bkt/secret/?tagging discloses the tags of bkt/secret to user1: %s", r.Body)
	}
	g.Put(u, "/bkt/secret/?tagging", []byte(`<Tagging><TagSet><Tag><Key>mine</Key><Value>now</Value></Tag></TagSet></Tagging>`), nil)
	g.Delete(u, "/bkt/secret/?tagging", nil)
	if r := g.Get(g.RootC, "/bkt/secret?tagging", nil); r.Status != 200 || !strings.Contains(string(r.Body), "<Key>k</Key>") {
		t.Errorf("after user1's PUT and DELETE of /bkt/secret/?tagging the tags of bkt/secret are: %v", r)
	}
}
