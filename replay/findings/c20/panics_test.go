// Demonstrations for C20: requests that killed the gateway process (a handler panic is not recovered) before the fixes.
// One gateway per test process: run each with -run '^TestName$'.
package c20

import (
	"fmt"
	"testing"

	"replay/gwtest"
)

func alive(t *testing.T, g *gwtest.GW, what string) {
	t.Helper()
	if h := g.Get(g.RootC, "/", nil); h.Err != nil || h.Status != 200 {
		t.Fatalf("gateway no longer serves requests after %s: %v", what, h)
	}
}

// PUT /bkt?ownershipControls with an empty <OwnershipControls/> indexed Rules[0] of an empty list.
func TestEmptyOwnershipControlsIsAnswered(t *testing.T) {
	g := gwtest.Start(t, gwtest.Options{})
	g.MustStatus(g.Put(g.RootC, "/bkt", nil, nil), 200, "create bucket")
	r := g.Put(g.RootC, "/bkt?ownershipControls", []byte(`<OwnershipControls xmlns="http://s3.amazonaws.com/doc/2006-03-01/"></OwnershipControls>`), nil)
	if r.Err != nil {
		t.Fatalf("no answer to PUT ?ownershipControls without rules: %v (a handler panic kills the gateway)", r.Err)
	}
	if r.Status != 400 {
		t.Fatalf("PUT ?ownershipControls without rules answered %s, want 400 MalformedXML", r)
	}
	alive(t, g, "the empty ownership controls")
}

// GET /bkt?uploads&key-marker=K&max-uploads=1 with several uploads after the marker indexed the result list with the
// position in the list of all uploads.
func TestListMultipartUploadsAfterMarkerIsAnswered(t *testing.T) {
	g := gwtest.Start(t, gwtest.Options{})
	g.MustStatus(g.Put(g.RootC, "/bkt", nil, nil), 200, "create bucket")
	for i := 0; i < 6; i++ {
		g.MustStatus(g.Post(g.RootC, fmt.Sprintf("/bkt/obj%d?uploads", i), nil, nil), 200, "create multipart upload")
	}
	r := g.Get(g.RootC, "/bkt?uploads&key-marker=obj2&max-uploads=1", nil)
	if r.Err != nil {
		t.Fatalf("no answer to ListMultipartUploads with key-marker and max-uploads=1: %v (a handler panic kills the gateway)", r.Err)
	}
	if r.Status != 200 {
		t.Fatalf("ListMultipartUploads answered %s", r)
	}
	alive(t, g, "ListMultipartUploads")
}

// A request target without a leading slash ("GET foo HTTP/1.1") made the ACL middleware index past the path parts.
func TestRequestTargetWithoutSlashIsAnswered(t *testing.T) {
	g := gwtest.Start(t, gwtest.Options{})
	r := g.Do(gwtest.Req{Method: "GET", Target: "foo", SignTarget: "foo", Cred: g.RootC})
	if r.Err != nil {
		t.Fatalf("no answer to request target \"foo\": %v (a handler panic kills the gateway)", r.Err)
	}
	t.Logf("answer: %s", r)
	alive(t, g, "the request target without slash")
}

const aclWithoutGrantee = `<AccessControlPolicy xmlns="http://s3.amazonaws.com/doc/2006-03-01/"><Owner><ID>%s</ID></Owner><AccessControlList><Grant><Permission>READ</Permission></Grant></AccessControlList></AccessControlPolicy>`

// PUT /bkt?acl whose <Grant> has no <Grantee> dereferenced the missing grantee while validating the policy.
func TestBucketAclGrantWithoutGranteeIsAnswered(t *testing.T) {
	g := gwtest.Start(t, gwtest.Options{})
	g.MustStatus(g.Put(g.RootC, "/bkt", nil, map[string]string{"X-Amz-Object-Ownership": "BucketOwnerPreferred"}), 200, "create bucket")
	r := g.Put(g.RootC, "/bkt?acl", []byte(fmt.Sprintf(aclWithoutGrantee, g.RootC.Access)), nil)
	if r.Err != nil {
		t.Fatalf("no answer to PUT /bkt?acl with a grant without grantee: %v (a handler panic kills the gateway)", r.Err)
	}
	if r.Status != 400 {
		t.Fatalf("PUT /bkt?acl with a grant without grantee answered %s, want 400 MalformedACLError", r)
	}
	alive(t, g, "the bucket ACL without grantee")
}

// PUT /bkt/obj?acl whose <Grant> has no <Grantee> dereferenced the missing grantee while copying the grants.
func TestObjectAclGrantWithoutGranteeIsAnswered(t *testing.T) {
	g := gwtest.Start(t, gwtest.Options{})
	g.MustStatus(g.Put(g.RootC, "/bkt", nil, nil), 200, "create bucket")
	g.MustStatus(g.Put(g.RootC, "/bkt/obj", []byte("x"), nil), 200, "put object")
	r := g.Put(g.RootC, "/bkt/obj?acl", []byte(fmt.Sprintf(aclWithoutGrantee, g.RootC.Access)), nil)
	if r.Err != nil {
		t.Fatalf("no answer to PUT /bkt/obj?acl with a grant without grantee: %v (a handler panic kills the gateway)", r.Err)
	}
	if r.Status != 400 {
		t.Fatalf("PUT /bkt/obj?acl with a grant without grantee answered %s, want 400", r)
	}
	alive(t, g, "the object ACL without grantee")
}

// With an access log configured, a request that is refused before the authentication middleware ran (the URL decoder
// refuses a malformed escape, a dot segment, a version id with a slash) reached the access logger without a start time:
// the logger asserted ctx.Locals("startTime").(time.Time) on nil.
func TestRefusedRequestIsLoggedNotFatal(t *testing.T) {
	g := gwtest.Start(t, gwtest.Options{AccessLog: true})
	g.MustStatus(g.Put(g.RootC, "/bkt", nil, nil), 200, "create bucket")
	for _, target := range []string{"/bkt/%zz", "/bkt/../x", "/bkt/a?versionId=a/b", "bkt"} {
		r := g.Do(gwtest.Req{Method: "GET", Target: target, NoAuth: true})
		if r.Err != nil {
			t.Fatalf("no answer to GET %s: %v (a handler panic kills the gateway)", target, r.Err)
		}
		if r.Status/100 != 4 {
			t.Errorf("GET %s answered %s, want a 4xx error", target, r)
		}
	}
	alive(t, g, "refused requests with the access log on")
}

// An object PUT without Content-Length and without Transfer-Encoding has no body stream: the verifying readers were
// wrapped around a nil reader and the first Read dereferenced it.
func TestPutWithoutContentLengthIsAnswered(t *testing.T) {
	g := gwtest.Start(t, gwtest.Options{})
	g.MustStatus(g.Put(g.RootC, "/bkt", nil, nil), 200, "create bucket")
	r := g.Do(gwtest.Req{Method: "PUT", Target: "/bkt/obj", Cred: g.RootC, NoContentLength: true})
	if r.Err != nil {
		t.Fatalf("no answer to PUT /bkt/obj without Content-Length: %v (a handler panic kills the gateway)", r.Err)
	}
	alive(t, g, "the PUT without Content-Length")
}
