// Demonstrations for C04 through the real gateway and posix backend: client-supplied names with dot segments or
// separators were resolved by the file system and reached other buckets and files outside the gateway root.
// One gateway per test process: run each with -run '^TestName$'.
package c04

import (
	"os"
	"path/filepath"
	"strings"
	"testing"

	"github.com/pkg/xattr"
	"replay/gwtest"
)

func setup(t *testing.T) (*gwtest.GW, gwtest.Cred) {
	g := gwtest.Start(t, gwtest.Options{Versioning: true})
	g.MustStatus(g.Put(g.RootC, "/mine", nil, nil), 200, "create bucket mine")
	g.MustStatus(g.Put(g.RootC, "/other", nil, nil), 200, "create bucket other")
	g.MustStatus(g.Put(g.RootC, "/other/secret", []byte("other-bucket-secret"), nil), 200, "put other/secret")
	if err := os.WriteFile(filepath.Join(g.Top, "canary"), []byte("outside-the-gateway-root"), 0o644); err != nil {
		t.Fatal(err)
	}
	return g, g.RootC
}

func mustNotLeak(t *testing.T, what string, r *gwtest.Resp) {
	t.Helper()
	if r.Err != nil {
		t.Fatalf("%s: no answer: %v", what, r.Err)
	}
	if strings.Contains(string(r.Body), "other-bucket-secret") || strings.Contains(string(r.Body), "outside-the-gateway-root") {
		t.Errorf("%s: answered %d with content from outside the named bucket: %q", what, r.Status, r.Body)
	}
	if r.Status/100 == 2 {
		t.Errorf("%s: accepted (%d)", what, r.Status)
	}
}

func TestKeyWithDotDotSegmentsIsNotResolved(t *testing.T) {
	g, c := setup(t)
	mustNotLeak(t, "GET /mine/../other/secret", g.Get(c, "/mine/../other/secret", nil))
	mustNotLeak(t, "GET /mine/../../canary", g.Get(c, "/mine/../../canary", nil))
	mustNotLeak(t, "GET /mine/%2e%2e/other/secret", g.Do(gwtest.Req{Method: "GET", Target: "/mine/%2e%2e/other/secret", Cred: c}))
	r := g.Put(c, "/mine/../../planted", []byte("x"), nil)
	if _, err := os.Stat(filepath.Join(g.Top, "planted")); err == nil {
		t.Errorf("PUT /mine/../../planted created a file outside the gateway root (status %d)", r.Status)
	}
	r = g.Delete(c, "/mine/../other/secret", nil)
	if h := g.Get(c, "/other/secret", nil); h.Status != 200 {
		t.Errorf("DELETE /mine/../other/secret (status %d) removed the object of the other bucket (GET now %d)", r.Status, h.Status)
	}
}

func TestCopySourceWithDotDotSegmentsIsNotResolved(t *testing.T) {
	g, c := setup(t)
	r := g.Put(c, "/mine/copy", nil, map[string]string{"X-Amz-Copy-Source": "mine/../../canary"})
	if r.Err != nil {
		t.Fatalf("no answer: %v", r.Err)
	}
	if h := g.Get(c, "/mine/copy", nil); strings.Contains(string(h.Body), "outside-the-gateway-root") {
		t.Errorf("CopyObject from mine/../../canary (status %d) copied a file from outside the gateway root", r.Status)
	}
}

func TestDeleteObjectsKeysWithDotDotSegmentsAreNotResolved(t *testing.T) {
	g, c := setup(t)
	body := `<Delete xmlns="http://s3.amazonaws.com/doc/2006-03-01/"><Object><Key>../other/secret</Key></Object></Delete>`
	r := g.Post(c, "/mine?delete", []byte(body), nil)
	if r.Err != nil {
		t.Fatalf("no answer: %v", r.Err)
	}
	if h := g.Get(c, "/other/secret", nil); h.Status != 200 {
		t.Errorf("DeleteObjects in bucket mine with key ../other/secret (status %d) removed the object of the other bucket (GET now %d)", r.Status, h.Status)
	}
}

func TestVersionIdWithSeparatorsIsNotResolved(t *testing.T) {
	g, c := setup(t)
	g.MustStatus(g.Put(c, "/mine?versioning", []byte(`<VersioningConfiguration xmlns="http://s3.amazonaws.com/doc/2006-03-01/"><Status>Enabled</Status></VersioningConfiguration>`), nil), 200, "enable versioning")
	g.MustStatus(g.Put(c, "/mine/obj", []byte("v1"), nil), 200, "put obj")
	// the versions of mine/obj live under <versioning dir>/mine/<aa>/<bb>/<cc>/<hash>/ : climb out of it to the gateway's top directory
	for n := 3; n <= 9; n++ {
		up := strings.Repeat("../", n)
		mustNotLeak(t, "GET /mine/obj?versionId="+up+"canary", g.Get(c, "/mine/obj?versionId="+up+"canary", nil))
	}
}

// The admin call change-bucket-owner took its bucket parameter as a path: "../outside" put the ACL attribute on a
// directory beside the gateway root, "mine/obj" on an object file.
func TestChangeBucketOwnerBucketIsAName(t *testing.T) {
	g := gwtest.Start(t, gwtest.Options{Admin: true})
	c := g.RootC
	g.MustStatus(g.Put(c, "/mine", nil, nil), 200, "create bucket mine")
	g.AddUser("alice", "alicesecret", "user")
	outside := filepath.Join(g.Top, "outside")
	if err := os.Mkdir(outside, 0o755); err != nil {
		t.Fatal(err)
	}
	g.MustStatus(g.Put(c, "/mine/obj", []byte("x"), nil), 200, "put mine/obj")
	for _, b := range []string{"..%2Foutside", "mine%2Fobj"} {
		r := g.Do(gwtest.Req{Method: "PATCH", Target: "/change-bucket-owner?bucket=" + b + "&owner=alice", Cred: c})
		if r.Err != nil || r.Status/100 == 2 {
			t.Errorf("change-bucket-owner bucket=%s: %v, want a 4xx error", b, r)
		}
	}
	for _, p := range []string{outside, filepath.Join(g.Root, "mine", "obj")} {
		if v, err := xattr.Get(p, "user.acl"); err == nil {
			t.Errorf("%s now carries a bucket ACL: %s", p, v)
		}
	}
	if r := g.Do(gwtest.Req{Method: "PATCH", Target: "/change-bucket-owner?bucket=mine&owner=alice", Cred: c}); r.Status != 200 {
		t.Errorf("change-bucket-owner of an existing bucket: %v", r)
	}
}

// An empty path segment is dropped by the file system: "a//b" named the file of the key "a/b" (and "/b" in a batch
// delete the file of "b"), while policies and locks were evaluated for the spelling that was sent. A Deny on
// other/secret* did not cover the copy source "other//secret", a batch delete of "/secret" removed the key "secret".
func TestEmptyPathSegmentsAreNotResolved(t *testing.T) {
	g, c := setup(t)
	if r := g.Put(c, "/mine/a//b", []byte("x"), nil); r.Err != nil || r.Status/100 == 2 {
		t.Errorf("PUT /mine/a//b: %v, want a 4xx error", r)
	}
	if _, err := os.Stat(filepath.Join(g.Root, "mine", "a", "b")); err == nil {
		t.Errorf("PUT /mine/a//b created the file of the key a/b")
	}
	if r := g.Get(c, "/other//secret", nil); r.Status/100 == 2 {
		t.Errorf("GET /other//secret: %v", r)
	}
	r := g.Put(c, "/mine/copy", nil, map[string]string{"X-Amz-Copy-Source": "other//secret"})
	mustNotLeak(t, "CopyObject with source other//secret", r)
	if got := g.Get(c, "/mine/copy", nil); strings.Contains(string(got.Body), "other-bucket-secret") {
		t.Errorf("the copy holds the content of other/secret")
	}
	body := `<Delete><Object><Key>/secret</Key></Object></Delete>`
	d := g.Post(c, "/other?delete", []byte(body), nil)
	if still := g.Get(c, "/other/secret", nil); still.Status != 200 {
		t.Errorf("batch delete of the key \"/secret\" answered %d and removed the key \"secret\"", d.Status)
	}
}

// A batch delete with an empty key names the bucket directory itself: it must be refused and must leave the bucket as it
// was. With versioning suspended the bucket directory got a delete-marker attribute; with an empty, unversioned bucket the
// bucket directory itself was removed.
func TestDeleteObjectsWithAnEmptyKeyDoesNotTouchTheBucketDirectory(t *testing.T) {
	g, c := setup(t)
	g.MustStatus(g.Put(c, "/empty", nil, nil), 200, "create bucket empty")
	body := `<Delete xmlns="http://s3.amazonaws.com/doc/2006-03-01/"><Object><Key></Key></Object></Delete>`
	before, _ := xattr.List(filepath.Join(g.Root, "empty"))
	r := g.Post(c, "/empty?delete", []byte(body), nil)
	if r.Err != nil {
		t.Fatalf("no answer: %v", r.Err)
	}
	if r.Status/100 == 2 && strings.Contains(string(r.Body), "<Deleted>") {
		t.Errorf("a delete of the empty key was carried out: %d %s", r.Status, r.Body)
	}
	if _, err := os.Stat(filepath.Join(g.Root, "empty")); err != nil {
		t.Fatalf("after the batch delete the bucket directory is gone: %v", err)
	}
	after, _ := xattr.List(filepath.Join(g.Root, "empty"))
	if len(after) != len(before) {
		t.Errorf("attributes of the bucket directory before %v, after %v", before, after)
	}
	if h := g.Head(c, "/empty"); h.Status != 200 {
		t.Errorf("HEAD of the bucket afterwards: %d", h.Status)
	}
}
