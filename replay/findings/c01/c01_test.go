// Demonstrations for C01 through the real gateway and posix backend.
package c01

import (
	"testing"

	"replay/gwtest"
)

// HEAD of a directory object reported the size of the directory inode (4096) while GET and the listings say 0.
func TestHeadOfDirectoryObjectAgreesWithGet(t *testing.T) {
	g := gwtest.Start(t, gwtest.Options{})
	g.MustStatus(g.Put(g.RootC, "/bkt", nil, nil), 200, "create bucket")
	g.MustStatus(g.Put(g.RootC, "/bkt/dir/", nil, nil), 200, "put directory object")
	get := g.Get(g.RootC, "/bkt/dir/", nil)
	head := g.Head(g.RootC, "/bkt/dir/")
	if get.Status != 200 || head.Status != 200 || head.Header.Get("Content-Length") != get.Header.Get("Content-Length") || len(get.Body) != 0 {
		t.Errorf("GET: %d, Content-Length %s, %d bytes; HEAD: %d, Content-Length %s", get.Status, get.Header.Get("Content-Length"), len(get.Body),
			head.Status, head.Header.Get("Content-Length"))
	}
}
