// Demonstrations for C14 findings (policy evaluation follows the policy language exactly).
package c14

import (
	"encoding/json"
	"testing"

	"github.com/versity/versitygw/auth"
)

// '*' matches any run of characters, also when the subject itself contains '*' or '?'.
func TestGlobStarMatchesLiteralStar(t *testing.T) {
	var r auth.Resources
	for _, c := range []struct{ p, s string }{{"*", "*x"}, {"bkt/*", "bkt/*x"}, {"bkt/a*", "bkt/a*b"}, {"*?", "*ab"}} {
		if !r.Match(c.p, c.s) {
			t.Errorf("Match(%q, %q) = false, want true", c.p, c.s)
		}
	}
}

// consequence: a Deny on bkt/* must also deny the key "*x" (a legal S3 key)
func TestDenyCoversKeysContainingStar(t *testing.T) {
	doc := []byte(`{"Statement":[{"Effect":"Allow","Principal":"user1","Action":"s3:GetObject","Resource":"arn:aws:s3:::bkt/?x"},{"Effect":"Deny","Principal":"user1","Action":"s3:GetObject","Resource":"arn:aws:s3:::bkt/*"}]}`)
	var pol auth.BucketPolicy
	if err := json.Unmarshal(doc, &pol); err != nil {
		t.Fatal(err)
	}
	if err := auth.VerifyBucketPolicy(doc, "user1", "bkt", "*x", auth.GetObjectAction); err == nil {
		t.Fatalf("Deny on bkt/* does not cover key %q: request allowed", "*x")
	}
}

// A policy for bucket "mybucket" must not be accepted when a resource names another bucket
// that merely starts with the same characters.
func TestResourceOutsideBucketRefused(t *testing.T) {
	doc := []byte(`{"Statement":[{"Effect":"Allow","Principal":"*","Action":"s3:GetObject","Resource":"arn:aws:s3:::mybucket2/*"}]}`)
	if err := auth.ValidatePolicyDocument(doc, "mybucket", auth.NewIAMServiceSingle(auth.Account{Access: "root"})); err == nil {
		t.Fatalf("policy for bucket mybucket with resource mybucket2/* was accepted")
	}
}

// Action/resource kind mismatch must be refused whatever order the actions are visited in.
func TestActionResourceMismatchRefusedInEveryOrder(t *testing.T) {
	doc := []byte(`{"Statement":[{"Effect":"Allow","Principal":"*","Action":["s3:*","s3:GetObject"],"Resource":"arn:aws:s3:::mybucket"}]}`)
	accepted := 0
	for i := 0; i < 300; i++ {
		if err := auth.ValidatePolicyDocument(doc, "mybucket", auth.NewIAMServiceSingle(auth.Account{Access: "root"})); err == nil {
			accepted++
		}
	}
	if accepted != 0 {
		t.Fatalf("object action s3:GetObject on a bucket-only resource was accepted in %d of 300 runs (depends on map iteration order)", accepted)
	}
}

// A statement without Principal (or Action, or Resource) matches nothing. It was accepted on put: a Deny written that
// way silently did not apply, and the Allow beside it decided.
func TestStatementWithoutPrincipalRefused(t *testing.T) {
	iam := auth.NewIAMServiceSingle(auth.Account{Access: "root"})
	for _, doc := range []string{
		`{"Statement":[{"Effect":"Deny","Action":"s3:GetObject","Resource":"arn:aws:s3:::bkt/*"},{"Effect":"Allow","Principal":"*","Action":"s3:GetObject","Resource":"arn:aws:s3:::bkt/*"}]}`,
		`{"Statement":[{"Effect":"Allow","Principal":"*","Resource":"arn:aws:s3:::bkt/*"}]}`,
		`{"Statement":[{"Effect":"Allow","Principal":"*","Action":"s3:GetObject"}]}`,
		`{"Statement":[{"Effect":"Allow"}]}`,
	} {
		if err := auth.ValidatePolicyDocument([]byte(doc), "bkt", iam); err == nil {
			t.Errorf("accepted on put: %s", doc)
		}
	}
}

// Condition, NotPrincipal, NotAction and NotResource restrict a statement; the gateway does not evaluate them. They were
// dropped silently: an Allow restricted to an address range granted unconditionally, a Deny for everybody but alice
// denied alice.
func TestUnsupportedStatementElementsRefused(t *testing.T) {
	iam := auth.NewIAMServiceSingle(auth.Account{Access: "root"})
	for _, doc := range []string{
		`{"Statement":[{"Effect":"Allow","Principal":"*","Action":"s3:GetObject","Resource":"arn:aws:s3:::bkt/*","Condition":{"IpAddress":{"aws:SourceIp":"10.0.0.0/8"}}}]}`,
		`{"Statement":[{"Effect":"Deny","NotPrincipal":{"AWS":"alice"},"Principal":"*","Action":"s3:GetObject","Resource":"arn:aws:s3:::bkt/*"}]}`,
		`{"Statement":[{"Effect":"Allow","Principal":"*","NotAction":"s3:DeleteObject","Action":"s3:GetObject","Resource":"arn:aws:s3:::bkt/*"}]}`,
		`{"Statement":[{"Effect":"Allow","Principal":"*","Action":"s3:GetObject","Resource":"arn:aws:s3:::bkt/*","NotResource":"arn:aws:s3:::bkt/private/*"}]}`,
	} {
		if err := auth.ValidatePolicyDocument([]byte(doc), "bkt", iam); err == nil {
			t.Errorf("accepted on put: %s", doc)
		}
	}
	ok := `{"Version":"2012-10-17","Id":"p","Statement":[{"Sid":"s","Effect":"Allow","Principal":"*","Action":"s3:GetObject","Resource":"arn:aws:s3:::bkt/*"}]}`
	if err := auth.ValidatePolicyDocument([]byte(ok), "bkt", iam); err != nil {
		t.Errorf("a plain statement with Version, Id and Sid is refused: %v", err)
	}
}

// s3:GetBucketObjectLockConfiguration is the action GET ?object-lock is authorized with, but it was missing from the table
// of known actions: a policy naming it was refused as "invalid action" (it could only be granted through a wildcard).
func TestEveryActionTheGatewayChecksCanBeNamedInAPolicy(t *testing.T) {
	iam := auth.NewIAMServiceSingle(auth.Account{Access: "root"})
	for _, a := range []auth.Action{auth.GetBucketObjectLockConfigurationAction, auth.PutBucketObjectLockConfigurationAction, auth.GetBucketAclAction, auth.ListBucketAction} {
		doc := `{"Statement":[{"Effect":"Allow","Principal":"*","Action":"` + string(a) + `","Resource":"arn:aws:s3:::bkt"}]}`
		if err := auth.ValidatePolicyDocument([]byte(doc), "bkt", iam); err != nil {
			t.Errorf("%s: refused on put: %v", a, err)
		}
	}
}
