// Demonstration for C20/C16: GET /?max-buckets=0 must be answered, not crash the process.
package c20

import (
	"testing"

	"replay/gwtest"
)

func TestMaxBucketsZeroIsAnswered(t *testing.T) {
	g := gwtest.Start(t, gwtest.Options{})
	g.MustStatus(g.Put(g.RootC, "/bkt", nil, nil), 200, "create bucket")
	r := g.Get(g.RootC, "/?max-buckets=0", nil)
	if r.Err != nil {
		t.Fatalf("no answer to GET /?max-buckets=0: %v (a handler panic kills the gateway)", r.Err)
	}
	if r.Status != 400 && r.Status != 200 {
		t.Fatalf("GET /?max-buckets=0 answered %s", r)
	}
	if h := g.Get(g.RootC, "/", nil); h.Err != nil || h.Status != 200 {
		t.Fatalf("gateway no longer serves requests after max-buckets=0: %v", h)
	}
}
