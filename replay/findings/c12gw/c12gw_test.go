package c12gw

import (
	"testing"
	"time"

	"replay/gwtest"
)

// An upload that declares a chunk encoding the gateway does not implement (the ECDSA variants of the streaming payload) must
// be refused; it was acknowledged and the still-encoded body was stored as the object.
func TestUnimplementedChunkEncodingIsRefusedNotStoredEncoded(t *testing.T) {
	g := gwtest.Start(t, gwtest.Options{})
	g.MustStatus(g.Put(g.RootC, "/bkt", nil, nil), 200, "create bucket")
	body := []byte("5;chunk-signature=00\r\nhello\r\n0;chunk-signature=00\r\n\r\n")
	for _, pt := range []string{"STREAMING-AWS4-ECDSA-P256-SHA256-PAYLOAD", "STREAMING-AWS4-ECDSA-P256-SHA256-PAYLOAD-TRAILER"} {
		for _, decoded := range []string{"", "5"} {
			hdr := map[string]string{"Content-Encoding": "aws-chunked"}
			if decoded != "" {
				hdr["X-Amz-Decoded-Content-Length"] = decoded
			}
			r := g.Do(gwtest.Req{Method: "PUT", Target: "/bkt/obj", Cred: g.RootC, Body: body, Payload: pt, Header: hdr})
			if r.Err != nil {
				t.Fatalf("%s: no answer: %v", pt, r.Err)
			}
			h := g.Get(g.RootC, "/bkt/obj", nil)
			if r.Status/100 == 2 || h.Status == 200 {
				t.Errorf("%s (decoded length %q): PUT answered %d, GET afterwards %d with %d bytes %q", pt, decoded, r.Status, h.Status, len(h.Body), h.Body)
				g.Delete(g.RootC, "/bkt/obj", nil)
			}
		}
	}
}

// A presigned upload that declares a streaming (chunk-encoded) payload: the presigned path installs no decoder, so the
// request must be refused; it was acknowledged and the chunk framing and trailer were stored as object data.
func TestPresignedUploadWithAStreamingPayloadTypeIsNotStoredEncoded(t *testing.T) {
	g := gwtest.Start(t, gwtest.Options{})
	g.MustStatus(g.Put(g.RootC, "/bkt", nil, nil), 200, "create bucket")
	body := []byte("5\r\nhello\r\n0\r\nx-amz-checksum-crc32:AAAAAA==\r\n\r\n") // the trailer value is not the checksum of "hello"
	hdr := map[string]string{"X-Amz-Content-Sha256": "STREAMING-UNSIGNED-PAYLOAD-TRAILER", "Content-Encoding": "aws-chunked"}
	u := g.PresignHdr(g.RootC, "PUT", "/bkt/obj", 300, time.Now().UTC(), hdr)
	r := g.Do(gwtest.Req{Method: "PUT", Target: u, NoAuth: true, Body: body, Header: hdr})
	if r.Err != nil {
		t.Fatalf("no answer: %v", r.Err)
	}
	h := g.Get(g.RootC, "/bkt/obj", nil)
	t.Logf("PUT: %d %s", r.Status, r.Body)
	if r.Status/100 == 2 || h.Status == 200 {
		t.Errorf("PUT answered %d; GET afterwards %d with %d bytes %q", r.Status, h.Status, len(h.Body), h.Body)
	}
}
