package smoke

import (
	"testing"

	"replay/gwtest"
)

func TestSmoke(t *testing.T) {
	g := gwtest.Start(t, gwtest.Options{})
	g.MustStatus(g.Put(g.RootC, "/bkt", nil, nil), 200, "create bucket")
	g.MustStatus(g.Put(g.RootC, "/bkt/obj", []byte("hello world"), nil), 200, "put")
	r := g.Get(g.RootC, "/bkt/obj", map[string]string{"Range": "bytes=2-4"})
	t.Log(r.Status, string(r.Body), r.Header.Get("Content-Range"))
	if string(r.Body) != "llo" {
		t.Fatal("bad range body")
	}
	r = g.Get(g.RootC, "/bkt/obj", map[string]string{"Range": "garbage"})
	t.Log(r.Status, string(r.Body), r.Header.Get("Content-Range"))
}
