// Demonstrations for C18 / C20 on the S3-proxy backend against a local fake endpoint (httptest).
package c18

import (
	"context"
	"errors"
	"fmt"
	"io"
	"net/http"
	"net/http/httptest"
	"os"
	"testing"

	"github.com/aws/aws-sdk-go-v2/service/s3"
	"github.com/aws/aws-sdk-go-v2/service/s3/types"
	"github.com/versity/versitygw/backend/s3proxy"
	"github.com/versity/versitygw/s3err"
)

func endpoint(t *testing.T, h http.HandlerFunc) *s3proxy.S3Proxy {
	t.Helper()
	os.Unsetenv("AWS_CA_BUNDLE") // the sandbox sets it; the SDK then wants a transport it can add the CAs to
	srv := httptest.NewServer(h)
	t.Cleanup(srv.Close)
	be, err := s3proxy.New("AKIDEXAMPLE", "secretkey", srv.URL, "us-east-1", false, false, false)
	if err != nil {
		t.Fatalf("s3proxy.New: %v", err)
	}
	return be
}

func s3Error(status int, code, msg string) http.HandlerFunc {
	return func(w http.ResponseWriter, r *http.Request) {
		io.Copy(io.Discard, r.Body)
		w.Header().Set("Content-Type", "application/xml")
		w.WriteHeader(status)
		fmt.Fprintf(w, `<?xml version="1.0" encoding="UTF-8"?><Error><Code>%s</Code><Message>%s</Message><RequestId>r</RequestId><HostId>h</HostId></Error>`, code, msg)
	}
}

// An error answer of the endpoint was dereferenced as if it were a result: GET ?versioning of a bucket the endpoint does
// not know, or GetObjectAttributes of a missing key, ended the gateway process (a handler panic is not recovered).
func TestEndpointErrorIsHandedOnNotDereferenced(t *testing.T) {
	be := endpoint(t, s3Error(404, "NoSuchBucket", "The specified bucket does not exist"))
	ctx := context.Background()
	want := s3err.APIError{Code: "NoSuchBucket", Description: "The specified bucket does not exist", HTTPStatusCode: 404}
	try := func(name string, call func() error) {
		defer func() {
			if r := recover(); r != nil {
				t.Errorf("%s: panic (the gateway process would have died): %v", name, r)
			}
		}()
		err := call()
		var ae s3err.APIError
		if !errors.As(err, &ae) || ae != want {
			t.Errorf("%s: got %v, want the endpoint's error %+v", name, err, want)
		}
	}
	try("GetBucketVersioning", func() error { _, err := be.GetBucketVersioning(ctx, "nosuchbucket"); return err })
	bkt, key := "nosuchbucket", "k"
	try("GetObjectAttributes", func() error {
		_, err := be.GetObjectAttributes(ctx, &s3.GetObjectAttributesInput{Bucket: &bkt, Key: &key,
			ObjectAttributes: []types.ObjectAttributes{types.ObjectAttributesEtag}})
		return err
	})
}

// The part markers of GetObjectAttributes were copied only when they could NOT be parsed (inverted test), i.e. never.
func TestObjectAttributesPartMarkersAreHandedBack(t *testing.T) {
	be := endpoint(t, func(w http.ResponseWriter, r *http.Request) {
		w.Header().Set("Content-Type", "application/xml")
		fmt.Fprint(w, `<?xml version="1.0" encoding="UTF-8"?><GetObjectAttributesResponse><ETag>e</ETag><ObjectSize>10</ObjectSize>`+
			`<ObjectParts><PartNumberMarker>2</PartNumberMarker><NextPartNumberMarker>4</NextPartNumberMarker><MaxParts>2</MaxParts><IsTruncated>true</IsTruncated>`+
			`<Part><PartNumber>3</PartNumber><Size>5</Size></Part><Part><PartNumber>4</PartNumber><Size>5</Size></Part></ObjectParts></GetObjectAttributesResponse>`)
	})
	bkt, key := "b", "k"
	out, err := be.GetObjectAttributes(context.Background(), &s3.GetObjectAttributesInput{Bucket: &bkt, Key: &key,
		ObjectAttributes: []types.ObjectAttributes{types.ObjectAttributesObjectParts}})
	if err != nil {
		t.Fatal(err)
	}
	if out.ObjectParts == nil || out.ObjectParts.PartNumberMarker != 2 || out.ObjectParts.NextPartNumberMarker != 4 {
		t.Errorf("part markers: got %+v, the endpoint said PartNumberMarker 2, NextPartNumberMarker 4", out.ObjectParts)
	}
}

// Elements of the endpoint's answer that the gateway's answer has a place for were dropped on the way: the version id and
// the delete-marker flag of GetObjectAttributes, StartAfter of a V2 listing, the source version id of UploadPartCopy.
func TestAnswerElementsAreHandedBack(t *testing.T) {
	ctx := context.Background()
	bkt, key := "b", "k"

	be := endpoint(t, func(w http.ResponseWriter, r *http.Request) {
		w.Header().Set("Content-Type", "application/xml")
		w.Header().Set("x-amz-version-id", "v7")
		w.Header().Set("x-amz-delete-marker", "true")
		fmt.Fprint(w, `<?xml version="1.0" encoding="UTF-8"?><GetObjectAttributesResponse><ETag>e</ETag><ObjectSize>10</ObjectSize></GetObjectAttributesResponse>`)
	})
	attr, err := be.GetObjectAttributes(ctx, &s3.GetObjectAttributesInput{Bucket: &bkt, Key: &key,
		ObjectAttributes: []types.ObjectAttributes{types.ObjectAttributesEtag}})
	if err != nil {
		t.Fatal(err)
	}
	if attr.VersionId == nil || *attr.VersionId != "v7" {
		t.Errorf("GetObjectAttributes: the endpoint answered version id v7, the gateway hands back %v", attr.VersionId)
	}
	if attr.DeleteMarker == nil || !*attr.DeleteMarker {
		t.Errorf("GetObjectAttributes: the endpoint answered delete-marker true, the gateway hands back %v", attr.DeleteMarker)
	}

	be = endpoint(t, func(w http.ResponseWriter, r *http.Request) {
		w.Header().Set("Content-Type", "application/xml")
		fmt.Fprint(w, `<?xml version="1.0" encoding="UTF-8"?><ListBucketResult><Name>b</Name><Prefix></Prefix><StartAfter>abc</StartAfter><KeyCount>0</KeyCount><MaxKeys>1000</MaxKeys><IsTruncated>false</IsTruncated></ListBucketResult>`)
	})
	sa := "abc"
	l, err := be.ListObjectsV2(ctx, &s3.ListObjectsV2Input{Bucket: &bkt, StartAfter: &sa})
	if err != nil {
		t.Fatal(err)
	}
	if l.StartAfter == nil || *l.StartAfter != "abc" {
		t.Errorf("ListObjectsV2: the endpoint answered StartAfter abc, the gateway hands back %v", l.StartAfter)
	}

	be = endpoint(t, func(w http.ResponseWriter, r *http.Request) {
		w.Header().Set("Content-Type", "application/xml")
		w.Header().Set("x-amz-copy-source-version-id", "srcv1")
		fmt.Fprint(w, `<?xml version="1.0" encoding="UTF-8"?><CopyPartResult><LastModified>2024-01-02T03:04:05Z</LastModified><ETag>"e"</ETag></CopyPartResult>`)
	})
	src, uid := "b/src?versionId=srcv1", "u1"
	pn := int32(1)
	cp, err := be.UploadPartCopy(ctx, &s3.UploadPartCopyInput{Bucket: &bkt, Key: &key, CopySource: &src, UploadId: &uid, PartNumber: &pn})
	if err != nil {
		t.Fatal(err)
	}
	if cp.CopySourceVersionId != "srcv1" {
		t.Errorf("UploadPartCopy: the endpoint answered source version id srcv1, the gateway hands back %q", cp.CopySourceVersionId)
	}
}
