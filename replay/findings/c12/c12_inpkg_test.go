// Demonstrations for C12, run inside package s3api/utils through a build overlay (they need the package's own signing
// helpers):   /verif/replay/inpkg.sh s3api/utils /verif/replay/findings/c12/c12_inpkg_test.go '^TestC12'
package utils

import (
	"bytes"
	"crypto/sha256"
	"encoding/base64"
	"encoding/hex"
	"fmt"
	"io"
	"strings"
	"testing"
	"time"
)

var c12Date = time.Date(2025, 1, 2, 3, 4, 5, 0, time.UTC)

const (
	c12Region = "us-east-1"
	c12Secret = "demo-secret"
	c12Seed   = "1111111111111111111111111111111111111111111111111111111111111111"
)

// signed aws-chunked encoding of the chunks (without the terminating chunk when final is false)
func c12Signed(chunks [][]byte, final bool) []byte {
	key := getSigningKey(c12Secret, c12Region, c12Date)
	scope := fmt.Sprintf("%s/%s/s3/aws4_request", c12Date.Format("20060102"), c12Region)
	prev := c12Seed
	sign := func(c []byte) string {
		h := sha256.Sum256(c)
		sts := fmt.Sprintf("AWS4-HMAC-SHA256-PAYLOAD\n%s\n%s\n%s\n%s\n%s", c12Date.Format("20060102T150405Z"), scope, prev, zeroLenSig, hex.EncodeToString(h[:]))
		prev = hex.EncodeToString(hmac256(key, []byte(sts)))
		return prev
	}
	var b bytes.Buffer
	for _, c := range chunks {
		fmt.Fprintf(&b, "%x;chunk-signature=%s\r\n%s\r\n", len(c), sign(c), c)
	}
	if final {
		fmt.Fprintf(&b, "0;chunk-signature=%s\r\n\r\n", sign(nil))
	}
	return b.Bytes()
}

func c12ReadSigned(t *testing.T, stream []byte) ([]byte, error) {
	t.Helper()
	r, err := NewSignedChunkReader(bytes.NewReader(stream), AuthData{Signature: c12Seed}, c12Region, c12Secret, c12Date, "", false)
	if err != nil {
		t.Fatalf("NewSignedChunkReader: %v", err)
	}
	return io.ReadAll(r)
}

// A signed stream that ends before the terminating chunk must be rejected: the signature of the last data chunk is
// only checked when the next chunk header is parsed, so a forged last chunk followed by a cut went through.
func TestC12SignedStreamCutBeforeFinalChunkIsRejected(t *testing.T) {
	chunks := [][]byte{bytes.Repeat([]byte("a"), 64), bytes.Repeat([]byte("b"), 64)}
	if got, err := c12ReadSigned(t, c12Signed(chunks, true)); err != nil || !bytes.Equal(got, bytes.Join(chunks, nil)) {
		t.Fatalf("valid stream: %d bytes, err %v", len(got), err)
	}
	cut := c12Signed(chunks, false)
	// forge the last chunk's payload and cut right after it (before its closing CRLF)
	forged := bytes.Replace(cut[:len(cut)-2], bytes.Repeat([]byte("b"), 64), bytes.Repeat([]byte("X"), 64), 1)
	got, err := c12ReadSigned(t, forged)
	if err == nil {
		t.Errorf("stream cut before the terminating chunk, last chunk forged: accepted, %d bytes decoded (%q…)", len(got), got[60:70])
	}
	if got, err := c12ReadSigned(t, cut); err == nil {
		t.Errorf("stream cut before the terminating chunk: accepted, %d bytes decoded", len(got))
	}
}

// An unsigned stream that ends right after a chunk-size line must be rejected, not reported as a clean end.
func TestC12UnsignedStreamCutAfterChunkSizeIsRejected(t *testing.T) {
	r, err := NewUnsignedChunkReader(bytes.NewReader([]byte("a\r\n")), checksumTypeCrc32, false)
	if err != nil {
		t.Fatal(err)
	}
	got, err := io.ReadAll(r)
	if err == nil {
		t.Errorf("stream \"a\\r\\n\" (size line, then nothing): accepted as a complete body of %d bytes; trailer never checked", len(got))
	}
}

// C20: a negative chunk size must be refused as malformed, not used as a length (make / slice bound panic that ends
// the gateway process; the request only needs valid header credentials).
func TestC20NegativeChunkSizeIsRefused(t *testing.T) {
	try := func(name string, read func() error) {
		defer func() {
			if r := recover(); r != nil {
				t.Errorf("%s: panic (the gateway process would have died): %v", name, r)
			}
		}()
		if err := read(); err == nil {
			t.Errorf("%s: accepted", name)
		}
	}
	try("unsigned stream with chunk size -1", func() error {
		r, err := NewUnsignedChunkReader(bytes.NewReader([]byte("-1\r\nxx\r\n0\r\n\r\n")), checksumTypeCrc32, false)
		if err != nil {
			return err
		}
		_, err = io.ReadAll(r)
		return err
	})
	try("signed stream with chunk size -1", func() error {
		r, err := NewSignedChunkReader(bytes.NewReader([]byte("-1;chunk-signature="+c12Seed+"\r\nxxxxxxxx\r\n")), AuthData{Signature: c12Seed}, c12Region, c12Secret, c12Date, "", false)
		if err != nil {
			return err
		}
		_, err = io.ReadAll(r)
		return err
	})
}

// C20: the announced size of a chunk of an unsigned aws-chunked stream must not size an allocation. The reader made a
// slice of the announced size before a single payload byte had arrived: 7fffffffffffffff ends the process with
// "makeslice: len out of range", a few terabytes with a fatal out-of-memory error. The request only needs an
// Authorization header that names an existing access key (the signature is checked after the body).
func TestC20AnnouncedChunkSizeDoesNotSizeAnAllocation(t *testing.T) {
	for _, size := range []string{"7fffffffffffffff", "1000000000000000"} {
		func() {
			defer func() {
				if r := recover(); r != nil {
					t.Errorf("chunk size %s: panic (the gateway process would have died): %v", size, r)
				}
			}()
			r, err := NewUnsignedChunkReader(bytes.NewReader([]byte(size+"\r\nabc")), checksumTypeCrc32, false)
			if err != nil {
				t.Fatal(err)
			}
			if _, err = io.ReadAll(r); err == nil {
				t.Errorf("chunk size %s with 3 bytes of data: accepted", size)
			}
		}()
	}
}

// C06 / C12: a data chunk whose chunk-signature is empty was never verified (the pending signature doubles as the flag
// "there is a signature to check"), so its bytes were accepted unsigned as long as the terminating chunk chained from the
// last signature that was checked.
func TestC12ChunkWithEmptySignatureIsRefused(t *testing.T) {
	key := getSigningKey(c12Secret, c12Region, c12Date)
	scope := fmt.Sprintf("%s/%s/s3/aws4_request", c12Date.Format("20060102"), c12Region)
	h := sha256.Sum256(nil)
	sts := fmt.Sprintf("AWS4-HMAC-SHA256-PAYLOAD\n%s\n%s\n%s\n%s\n%s", c12Date.Format("20060102T150405Z"), scope, c12Seed, zeroLenSig, hex.EncodeToString(h[:]))
	final := hex.EncodeToString(hmac256(key, []byte(sts)))
	stream := []byte("a;chunk-signature=\r\nunsigned!!!\r\n0;chunk-signature=" + final + "\r\n\r\n")
	stream = bytes.Replace(stream, []byte("unsigned!!!"), []byte("unsigned!!"), 1)
	got, err := c12ReadSigned(t, stream)
	if err == nil {
		t.Fatalf("a data chunk with an empty chunk-signature was accepted: decoded %q", got)
	}
}

// endless is a stream of one repeated byte that counts what was taken from it
type endless struct {
	b     byte
	taken int
}

func (e *endless) Read(p []byte) (int, error) {
	for i := range p {
		p[i] = e.b
	}
	e.taken += len(p)
	return len(p), nil
}

// C20: framing lines of an unsigned aws-chunked stream are bounded. A size line (or a trailer line) that never ends was
// buffered for as long as the client kept sending: memory without bound, before anything of the request is verified.
func TestC20UnsignedFramingLinesAreBounded(t *testing.T) {
	src := &endless{b: '1'}
	r, err := NewUnsignedChunkReader(src, checksumTypeCrc32, false)
	if err != nil {
		t.Fatal(err)
	}
	done := make(chan error, 1)
	go func() { _, err := r.Read(make([]byte, 64)); done <- err }()
	select {
	case err := <-done:
		if err == nil {
			t.Errorf("a size line without end was accepted")
		}
		if src.taken > 1<<20 {
			t.Errorf("%d bytes of a size line were buffered before it was refused", src.taken)
		}
	case <-time.After(2 * time.Second):
		t.Errorf("the reader is still buffering a size line after %d bytes", src.taken)
	}
	// the same for the trailer line
	tr := io.MultiReader(bytes.NewReader([]byte("0\r\n")), &endless{b: 'x'})
	r, _ = NewUnsignedChunkReader(tr, checksumTypeCrc32, false)
	done = make(chan error, 1)
	go func() { _, err := r.Read(make([]byte, 64)); done <- err }()
	select {
	case err := <-done:
		if err == nil {
			t.Errorf("a trailer line without end was accepted")
		}
	case <-time.After(2 * time.Second):
		t.Errorf("the reader is still buffering a trailer line after 2 s")
	}
}

// C12: whether a stream is accepted must not depend on how it is cut into reads. A chunk header longer than
// maxHeaderSize (a size field with many leading zeros) was refused when it arrived in pieces (the part kept for the next
// read is limited) but accepted when it arrived in one read.
func TestC12LongChunkHeaderIsJudgedTheSameHoweverItArrives(t *testing.T) {
	for _, zeros := range []int{900, 1100, 3000} {
		key := getSigningKey(c12Secret, c12Region, c12Date)
		scope := fmt.Sprintf("%s/%s/s3/aws4_request", c12Date.Format("20060102"), c12Region)
		prev := c12Seed
		sign := func(c []byte) string {
			h := sha256.Sum256(c)
			sts := fmt.Sprintf("AWS4-HMAC-SHA256-PAYLOAD\n%s\n%s\n%s\n%s\n%s", c12Date.Format("20060102T150405Z"), scope, prev, zeroLenSig, hex.EncodeToString(h[:]))
			prev = hex.EncodeToString(hmac256(key, []byte(sts)))
			return prev
		}
		data := []byte("abcdefghij")
		stream := []byte(strings.Repeat("0", zeros) + fmt.Sprintf("a;chunk-signature=%s\r\n%s\r\n", sign(data), data))
		stream = append(stream, []byte(fmt.Sprintf("0;chunk-signature=%s\r\n\r\n", sign(nil)))...)
		verdict := func(frag, buf int) bool {
			r, err := NewSignedChunkReader(&fixedFragments{data: stream, k: frag}, AuthData{Signature: c12Seed}, c12Region, c12Secret, c12Date, "", false)
			if err != nil {
				t.Fatal(err)
			}
			b := make([]byte, buf)
			for i := 0; i < 100000; i++ {
				_, err := r.Read(b)
				if err == io.EOF {
					return true
				}
				if err != nil {
					return false
				}
			}
			return false
		}
		whole := verdict(len(stream), 8192)
		for _, fb := range [][2]int{{512, 8192}, {1, 8192}, {len(stream), 100}, {1000, 8192}} {
			if v := verdict(fb[0], fb[1]); v != whole {
				t.Errorf("%d leading zeros: accepted=%v in one read with an 8192 byte buffer, accepted=%v in reads of %d bytes with a %d byte buffer", zeros, whole, v, fb[0], fb[1])
			}
		}
	}
}

// The same for the second and for the terminating header, and for a cut at every position near the end of the padded
// header: headers padded to about the limit (1024 bytes) were accepted in one read and refused when the cut fell one to
// three bytes before their end; a padded terminating header was never measured when it arrived whole.
func TestC12HeaderLimitDoesNotDependOnWhereTheStreamIsCut(t *testing.T) {
	mk := func(z1, z2, z3 int) []byte {
		key := getSigningKey(c12Secret, c12Region, c12Date)
		scope := fmt.Sprintf("%s/%s/s3/aws4_request", c12Date.Format("20060102"), c12Region)
		prev := c12Seed
		sign := func(c []byte) string {
			h := sha256.Sum256(c)
			sts := fmt.Sprintf("AWS4-HMAC-SHA256-PAYLOAD\n%s\n%s\n%s\n%s\n%s", c12Date.Format("20060102T150405Z"), scope, prev, zeroLenSig, hex.EncodeToString(h[:]))
			prev = hex.EncodeToString(hmac256(key, []byte(sts)))
			return prev
		}
		d1, d2 := []byte("abcdefghij"), []byte("klmnopqrst")
		var b bytes.Buffer
		fmt.Fprintf(&b, "%sa;chunk-signature=%s\r\n%s\r\n", strings.Repeat("0", z1), sign(d1), d1)
		fmt.Fprintf(&b, "%sa;chunk-signature=%s\r\n%s\r\n", strings.Repeat("0", z2), sign(d2), d2)
		fmt.Fprintf(&b, "%s0;chunk-signature=%s\r\n\r\n", strings.Repeat("0", z3), sign(nil))
		return b.Bytes()
	}
	verdict := func(stream []byte, cut int) bool {
		r, err := NewSignedChunkReader(&cutOnce{data: stream, cut: cut}, AuthData{Signature: c12Seed}, c12Region, c12Secret, c12Date, "", false)
		if err != nil {
			t.Fatal(err)
		}
		b := make([]byte, 8192)
		for i := 0; i < 1000; i++ {
			_, err := r.Read(b)
			if err == io.EOF {
				return true
			}
			if err != nil {
				return false
			}
		}
		return false
	}
	bad := 0
	for _, z := range []int{930, 938, 939, 940, 941, 942, 943, 944, 1020, 1100, 2100} {
		for pos := 0; pos < 3; pos++ {
			zs := [3]int{}
			zs[pos] = z
			stream := mk(zs[0], zs[1], zs[2])
			whole := verdict(stream, len(stream))
			for cut := 1; cut < len(stream); cut++ {
				if v := verdict(stream, cut); v != whole && bad < 10 {
					bad++
					t.Errorf("header %d padded with %d zeros: accepted=%v in one read, accepted=%v when the stream is cut after byte %d of %d", pos+1, z, whole, v, cut, len(stream))
				}
			}
		}
	}
}

// delivers data[:cut] with the first Read, the rest with the following ones
type cutOnce struct {
	data []byte
	cut  int
	done bool
}

func (c *cutOnce) Read(p []byte) (int, error) {
	if len(c.data) == 0 {
		return 0, io.EOF
	}
	n := len(c.data)
	if !c.done && c.cut < n {
		n = c.cut
	}
	c.done = true
	if n > len(p) {
		n = len(p)
	}
	copy(p, c.data[:n])
	c.data = c.data[n:]
	return n, nil
}

type fixedFragments struct {
	data []byte
	k    int
}

func (f *fixedFragments) Read(p []byte) (int, error) {
	if len(f.data) == 0 {
		return 0, io.EOF
	}
	n := f.k
	if n > len(f.data) {
		n = len(f.data)
	}
	if n > len(p) {
		n = len(p)
	}
	copy(p, f.data[:n])
	f.data = f.data[n:]
	return n, nil
}

// C12: a chunk-size field is a bare hexadecimal number. "+a" and "-0" were accepted (strconv.ParseInt) by both decoders.
func TestC12SignedChunkSizeFieldIsMalformed(t *testing.T) {
	for _, sz := range []string{"+a", "-0"} {
		body := "0123456789"
		if sz == "-0" {
			body = ""
		}
		// unsigned: <size>\r\n<data>\r\n0\r\n<trailer>
		h, _ := getHasher(checksumTypeCrc32)
		h.Write([]byte(body))
		cs := base64.StdEncoding.EncodeToString(h.Sum(nil))
		var stream string
		if sz == "-0" {
			stream = "-0\r\nx-amz-checksum-crc32:" + cs + "\r\n\r\n"
		} else {
			stream = sz + "\r\n" + body + "\r\n0\r\nx-amz-checksum-crc32:" + cs + "\r\n\r\n"
		}
		r, err := NewUnsignedChunkReader(bytes.NewReader([]byte(stream)), checksumTypeCrc32, false)
		if err != nil {
			t.Fatal(err)
		}
		if got, err := io.ReadAll(r); err == nil {
			t.Errorf("unsigned stream with size field %q: accepted, decoded %q", sz, got)
		}
	}
	// signed: "+a;chunk-signature=..." with correct signatures
	s := c12Signed([][]byte{[]byte("0123456789")}, true)
	s = append([]byte("+"), s...)
	if got, err := c12ReadSigned(t, s); err == nil {
		t.Errorf("signed stream with size field \"+a\": accepted, decoded %q", got)
	}
}

// C02: a presigned URL dated in the future was accepted: with X-Amz-Date two days (or ten years) ahead the URL is valid
// for far longer than its X-Amz-Expires says and than the seven days the protocol allows.
func TestC02PresignedDateInTheFutureIsRefused(t *testing.T) {
	if err := validateExpiration("3600", time.Now().UTC().Add(-10*time.Minute)); err != nil {
		t.Errorf("a url presigned ten minutes ago for an hour is refused: %v", err)
	}
	if err := validateExpiration("3600", time.Now().UTC().Add(5*time.Minute)); err != nil {
		t.Errorf("a url dated five minutes ahead (clock skew) is refused: %v", err)
	}
	for _, ahead := range []time.Duration{48 * time.Hour, 10 * 365 * 24 * time.Hour} {
		if err := validateExpiration("3600", time.Now().UTC().Add(ahead)); err == nil {
			t.Errorf("a url dated %v in the future is accepted", ahead)
		}
	}
}
