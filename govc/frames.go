package main

// Syntactic check of frame declarations on repository functions.
//
// `pure` and `frame none` say: a call writes no memory the caller can observe. They are used at call sites (the heap is
// kept across the call). This file checks the declaration against the SSA of the declared function, conservatively:
// every store goes to a local of the function or to an object the function itself allocated; every map update and
// every append/copy/delete target is such an object; every callee is itself declared (or checked) frame-clean, or is a
// library function with a trusted frame contract; function literals of the function are checked the same way (their
// stores to variables captured from the function count as local). A function that passes is "checked"; one that does
// not stays an assumption and is listed as such. `govc frames` prints the verdicts; a property check fails when a
// declaration that passed on the pinned tree (baseline/frames_ok.json) no longer passes.

import (
	"encoding/json"
	"fmt"
	"go/token"
	"os"
	"path/filepath"
	"sort"
	"strings"

	"golang.org/x/tools/go/ssa"
)

type frameChecker struct {
	eng   *Engine
	memo  map[*ssa.Function]string // "" = clean, otherwise the first reason found
	stack map[*ssa.Function]bool
}

func newFrameChecker(eng *Engine) *frameChecker {
	return &frameChecker{eng: eng, memo: map[*ssa.Function]string{}, stack: map[*ssa.Function]bool{}}
}

// freshRoot: the address / reference is rooted in something this function (or an enclosing one, for literals) allocated.
func freshRoot(v ssa.Value, depth int) bool {
	if depth > 12 {
		return false
	}
	switch x := v.(type) {
	case *ssa.Alloc, *ssa.MakeSlice, *ssa.MakeMap, *ssa.MakeChan, *ssa.MakeInterface:
		return true
	case *ssa.FreeVar:
		return true // a variable captured from the enclosing function: local to that function
	case *ssa.FieldAddr:
		return freshRoot(x.X, depth+1)
	case *ssa.IndexAddr:
		return freshRoot(x.X, depth+1)
	case *ssa.Slice:
		return freshRoot(x.X, depth+1)
	case *ssa.ChangeType:
		return freshRoot(x.X, depth+1)
	case *ssa.Convert:
		return true // string <-> []byte conversions allocate
	case *ssa.Const:
		return x.Value == nil // nil slice / map
	case *ssa.Phi:
		for _, e := range x.Edges {
			if !freshRoot(e, depth+1) {
				return false
			}
		}
		return true
	case *ssa.Call:
		if b, ok := x.Call.Value.(*ssa.Builtin); ok && b.Name() == "append" && len(x.Call.Args) > 0 {
			return freshRoot(x.Call.Args[0], depth+1)
		}
		return false
	case *ssa.UnOp:
		if x.Op == token.MUL { // a load: fresh when it reads a local slot that only ever held fresh values (not tracked)
			if a, ok := x.X.(*ssa.Alloc); ok {
				return allStoresFresh(a, depth+1)
			}
			if _, ok := x.X.(*ssa.FreeVar); ok {
				return false
			}
		}
	}
	return false
}

func allStoresFresh(a *ssa.Alloc, depth int) bool {
	if a.Referrers() == nil {
		return false
	}
	n := 0
	for _, r := range *a.Referrers() {
		if st, ok := r.(*ssa.Store); ok && st.Addr == ssa.Value(a) {
			n++
			if !freshRoot(st.Val, depth+1) {
				return false
			}
		}
	}
	return true
}

func (fc *frameChecker) calleeClean(cc *ssa.CallCommon, in ssa.Instruction, e *FEnc) string {
	if b, ok := cc.Value.(*ssa.Builtin); ok {
		switch b.Name() {
		case "append", "copy", "delete":
			if len(cc.Args) > 0 && !freshRoot(cc.Args[0], 0) {
				return b.Name() + " into memory the function did not allocate"
			}
		}
		return ""
	}
	if cc.IsInvoke() {
		if c := e.calleeContract(cc); c != nil && (c.Pure || c.NoHavoc) {
			return ""
		}
		return "calls interface method " + calleeName(cc) + " without a frame contract"
	}
	fn := cc.StaticCallee()
	if fn == nil {
		if c := e.funcTypeContract(cc); c != nil && (c.Pure || c.NoHavoc) {
			return ""
		}
		if mc, ok := cc.Value.(*ssa.MakeClosure); ok {
			if lit, ok := mc.Fn.(*ssa.Function); ok {
				return fc.check(lit)
			}
		}
		return "calls a function value"
	}
	if c := fc.eng.contractOf(fn); c != nil && (c.Pure || c.NoHavoc) {
		return ""
	}
	if fc.eng.isRepoFn(fn) {
		if r := fc.check(fn); r != "" {
			return "calls " + shortFn(fn) + ", which " + r
		}
		return ""
	}
	return "calls " + calleeName(cc) + " without a frame contract"
}

func (fc *frameChecker) check(fn *ssa.Function) string {
	if r, ok := fc.memo[fn]; ok {
		return r
	}
	if fc.stack[fn] {
		return "" // recursion: judged by the other instructions
	}
	fc.stack[fn] = true
	defer delete(fc.stack, fn)
	e := fc.eng.newFEnc(fn, "")
	reason := ""
	for _, b := range fn.Blocks {
		for _, in := range b.Instrs {
			if reason != "" {
				break
			}
			switch x := in.(type) {
			case *ssa.Store:
				if !freshRoot(x.Addr, 0) {
					reason = "stores through a pointer it did not allocate (" + fc.eng.prog.Fset.Position(x.Pos()).String() + ")"
				}
			case *ssa.MapUpdate:
				if !freshRoot(x.Map, 0) {
					reason = "updates a map it did not make"
				}
			case *ssa.Go:
				reason = "starts a goroutine"
			case *ssa.Send:
				reason = "sends on a channel"
			case *ssa.Call:
				reason = fc.calleeClean(x.Common(), in, e)
			case *ssa.Defer:
				reason = fc.calleeClean(x.Common(), in, e)
			case *ssa.MakeClosure:
				if lit, ok := x.Fn.(*ssa.Function); ok {
					if r := fc.check(lit); r != "" {
						reason = "its function literal " + r
					}
				}
			}
		}
	}
	fc.memo[fn] = reason
	return reason
}

// frameVerdicts: for every repository function declared pure / frame none: "" (checked) or the reason it stays assumed.
func frameVerdicts(eng *Engine) map[string]string {
	fc := newFrameChecker(eng)
	out := map[string]string{}
	for _, k := range sortedKeys(eng.fnByKey) {
		fn := eng.fnByKey[k]
		if !eng.isRepoFn(fn) {
			continue
		}
		c := eng.contractOf(fn)
		if c == nil || c.Trusted || c.Iface || !(c.Pure || c.NoHavoc) {
			continue
		}
		out[shortFn(fn)] = fc.check(fn)
	}
	return out
}

func cmdFrames(args []string) int {
	repo, verif := "/repo", "/verif"
	write := false
	for i := 0; i < len(args); i++ {
		switch args[i] {
		case "-repo":
			i++
			repo = args[i]
		case "-verif":
			i++
			verif = args[i]
		case "-write":
			write = true
		}
	}
	eng, err := loadEngine(repo, filepath.Join(verif, "contracts", "trusted"))
	if err != nil {
		fmt.Fprintln(os.Stderr, "govc:", err)
		return 2
	}
	v := frameVerdicts(eng)
	var ok, assumed []string
	for _, k := range sortedKeys(v) {
		if v[k] == "" {
			ok = append(ok, k)
		} else {
			assumed = append(assumed, k+": "+v[k])
		}
	}
	fmt.Printf("frame declarations on repository functions: %d checked, %d assumed\n", len(ok), len(assumed))
	for _, a := range assumed {
		fmt.Println("  assumed:", a)
	}
	if write {
		sort.Strings(ok)
		b, _ := json.MarshalIndent(ok, "", " ")
		os.WriteFile(filepath.Join(verif, "baseline", "frames_ok.json"), append(b, '\n'), 0o644)
		os.WriteFile(filepath.Join(verif, "baseline", "frames_assumed.txt"), []byte(strings.Join(assumed, "\n")+"\n"), 0o644)
	}
	return 0
}
