// Demonstration for C17: a newly created account works at once with ALL its attributes.
package c17

import (
	"fmt"
	"os"
	"path/filepath"
	"runtime/debug"
	"strings"
	"sync"
	"testing"
	"time"

	"github.com/versity/versitygw/auth"
	"replay/gwtest"
)

type store struct{ m map[string]auth.Account }

func (s *store) CreateAccount(a auth.Account) error { s.m[a.Access] = a; return nil }
func (s *store) GetUserAccount(k string) (auth.Account, error) {
	a, ok := s.m[k]
	if !ok {
		return auth.Account{}, auth.ErrNoSuchUser
	}
	return a, nil
}
func (s *store) UpdateUserAccount(k string, p auth.MutableProps) error { return nil }
func (s *store) DeleteUserAccount(k string) error                      { delete(s.m, k); return nil }
func (s *store) ListUserAccounts() ([]auth.Account, error)             { return nil, nil }
func (s *store) Shutdown() error                                       { return nil }

func TestCreatedAccountHasAllAttributes(t *testing.T) {
	c := auth.NewCache(&store{m: map[string]auth.Account{}}, time.Minute, time.Minute)
	defer c.Shutdown()
	want := auth.Account{Access: "alice", Secret: "s3cr3t", Role: auth.RoleUser, UserID: 1001, GroupID: 2002}
	if err := c.CreateAccount(want); err != nil {
		t.Fatal(err)
	}
	got, err := c.GetUserAccount("alice")
	if err != nil || got != want {
		t.Fatalf("account right after creation: %+v, want %+v (uid/gid are used for file ownership)", got, want)
	}
}

// The account cache must not key its entries by a string that aliases the request buffer. fiber runs without Immutable,
// so the access key parsed from an Authorization header whose parts are separated by "," (no space) is a view of the
// reused header buffer; the miss path of IAMCache.GetUserAccount stored exactly that string as the map key. The next
// request overwrote the key's bytes: an unknown access key was matched with the cached account of another one, and a
// deleted account stayed in the cache because the delete no longer found its (rewritten) key.
func TestDeletedAccountIsGoneWithCompactAuthorization(t *testing.T) {
	g := gwtest.Start(t, gwtest.Options{IAMCache: true})
	// the account is written to the store by another service instance on the same directory (a second gateway, or an
	// entry whose cache time has run out, reach the same path): the gateway's first lookup of it misses the cache
	side, err := auth.New(&auth.Opts{RootAccount: auth.Account{Access: g.RootC.Access, Secret: g.RootC.Secret, Role: auth.RoleAdmin},
		Dir: filepath.Join(g.Top, "iam"), CacheDisable: true})
	if err != nil {
		t.Fatal(err)
	}
	alice := gwtest.Cred{Access: "alice", Secret: "alicesecret"}
	if err := side.CreateAccount(auth.Account{Access: alice.Access, Secret: alice.Secret, Role: auth.RoleUser}); err != nil {
		t.Fatal(err)
	}
	code := func(r *gwtest.Resp) string {
		s := string(r.Body)
		i, j := strings.Index(s, "<Code>"), strings.Index(s, "</Code>")
		if i < 0 || j < 0 {
			return fmt.Sprint(r.Status)
		}
		return s[i+6 : j]
	}
	req := func(c gwtest.Cred) *gwtest.Resp {
		return g.Do(gwtest.Req{Method: "GET", Target: "/", Cred: c, CompactAuth: true})
	}
	if r := req(alice); r.Status != 200 {
		t.Fatalf("alice lists buckets: %v", r)
	}
	bobby := gwtest.Cred{Access: "bobby", Secret: "whatever"}
	if c := code(req(bobby)); c != "InvalidAccessKeyId" {
		t.Errorf("unknown access key bobby: %s, want InvalidAccessKeyId (it was matched with alice's cache entry)", c)
	}
	if err := g.IAM.DeleteUserAccount("alice"); err != nil {
		t.Fatal(err)
	}
	if c := code(req(alice)); c != "InvalidAccessKeyId" {
		t.Errorf("alice after her account was deleted: %s, want InvalidAccessKeyId", c)
	}
}

// parked is a store whose lookups can be held after they have fetched the account
type parked struct {
	store
	hold    chan struct{}
	fetched chan struct{}
}

func (p *parked) GetUserAccount(k string) (auth.Account, error) {
	a, err := p.store.GetUserAccount(k)
	if p.hold != nil {
		p.fetched <- struct{}{}
		<-p.hold
	}
	return a, err
}

// A lookup that missed the cache fetched the account and stored it after the fact. A delete (or an update) acknowledged
// in between was overwritten by the stale account: the deleted account authenticated for a whole cache period.
func TestLookupInFlightDoesNotUndoAnAcknowledgedDelete(t *testing.T) {
	for _, change := range []string{"delete", "update"} {
		p := &parked{store: store{m: map[string]auth.Account{"alice": {Access: "alice", Secret: "s1", Role: auth.RoleUser}}},
			hold: make(chan struct{}), fetched: make(chan struct{})}
		c := auth.NewCache(p, time.Minute, time.Minute)
		done := make(chan struct{})
		go func() { c.GetUserAccount("alice"); close(done) }()
		<-p.fetched // the lookup has the old account in its hands
		hold := p.hold
		p.hold = nil
		switch change {
		case "delete":
			if err := c.DeleteUserAccount("alice"); err != nil {
				t.Fatal(err)
			}
		case "update":
			s2 := "s2"
			a := p.m["alice"]
			a.Secret = s2
			p.m["alice"] = a
			if err := c.UpdateUserAccount("alice", auth.MutableProps{Secret: &s2}); err != nil {
				t.Fatal(err)
			}
		}
		close(hold)
		<-done
		got, err := c.GetUserAccount("alice")
		if change == "delete" && err == nil {
			t.Errorf("after the acknowledged delete the cache answers %+v", got)
		}
		if change == "update" && (err != nil || got.Secret != "s2") {
			t.Errorf("after the acknowledged update of the secret the cache answers %+v, %v", got, err)
		}
		c.Shutdown()
	}
}

// mutating store: applies updates, and parks the first update after it has been applied
type slowStore struct {
	mu sync.Mutex
	store
	hold    chan struct{}
	reached chan struct{}
	first   bool
}

func (s *slowStore) UpdateUserAccount(k string, p auth.MutableProps) error {
	s.mu.Lock()
	a := s.m[k]
	if p.Secret != nil {
		a.Secret = *p.Secret
	}
	s.m[k] = a
	park := !s.first
	s.first = true
	s.mu.Unlock()
	if park {
		close(s.reached)
		<-s.hold
	}
	return nil
}
func (s *slowStore) GetUserAccount(k string) (auth.Account, error) {
	s.mu.Lock()
	defer s.mu.Unlock()
	return s.store.GetUserAccount(k)
}

// Two updates of one account through the cache: whatever order they take, once both are acknowledged the cache answers
// what the store holds. The store update and the cache update of one call were two steps with nothing holding them
// together: the cache kept the secret of the update that reached the store first.
func TestConcurrentUpdatesLeaveCacheAndStoreAgreeing(t *testing.T) {
	s := &slowStore{store: store{m: map[string]auth.Account{"k": {Access: "k", Secret: "s0", Role: auth.RoleUser}}},
		hold: make(chan struct{}), reached: make(chan struct{})}
	c := auth.NewCache(s, time.Minute, time.Minute)
	defer c.Shutdown()
	if _, err := c.GetUserAccount("k"); err != nil { // the account is in the cache
		t.Fatal(err)
	}
	x, y := "X", "Y"
	d1, d2 := make(chan struct{}), make(chan struct{})
	go func() { c.UpdateUserAccount("k", auth.MutableProps{Secret: &x}); close(d1) }()
	<-s.reached // the first update is in the store, not yet in the cache
	go func() { c.UpdateUserAccount("k", auth.MutableProps{Secret: &y}); close(d2) }()
	select {
	case <-d2: // the second update ran to its end in between
	case <-time.After(300 * time.Millisecond): // or it waits for the first one
	}
	close(s.hold)
	<-d1
	<-d2
	inStore, _ := s.GetUserAccount("k")
	inCache, err := c.GetUserAccount("k")
	if err != nil || inCache.Secret != inStore.Secret {
		t.Errorf("both updates acknowledged: the store holds secret %q, the cache answers %q (%v)", inStore.Secret, inCache.Secret, err)
	}
}

// Changing accounts does not use up file descriptors: the temporary file the new account file is written to was never closed.
func TestAccountChangesDoNotLeakDescriptors(t *testing.T) {
	svc, err := auth.NewInternal(auth.Account{Access: "root", Secret: "rootsecret"}, t.TempDir())
	if err != nil {
		t.Fatal(err)
	}
	defer svc.Shutdown()
	old := debug.SetGCPercent(-1) // no finalizer may tidy up behind the code
	defer debug.SetGCPercent(old)
	fds := func() int { e, _ := os.ReadDir("/proc/self/fd"); return len(e) }
	before := fds()
	for i := 0; i < 40; i++ {
		if err := svc.CreateAccount(auth.Account{Access: fmt.Sprintf("user%d", i), Secret: "s", Role: auth.RoleUser}); err != nil {
			t.Fatalf("create %d: %v", i, err)
		}
	}
	if after := fds(); after > before+3 {
		t.Errorf("40 account changes left %d more descriptors open (%d -> %d)", after-before, before, after)
	}
}
