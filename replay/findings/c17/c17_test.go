// Demonstration for C17: a newly created account works at once with ALL its attributes.
package c17

import (
	"testing"
	"time"

	"github.com/versity/versitygw/auth"
)

type store struct{ m map[string]auth.Account }

func (s *store) CreateAccount(a auth.Account) error { s.m[a.Access] = a; return nil }
func (s *store) GetUserAccount(k string) (auth.Account, error) {
	a, ok := s.m[k]
	if !ok {
		return auth.Account{}, auth.ErrNoSuchUser
	}
	return a, nil
}
func (s *store) UpdateUserAccount(k string, p auth.MutableProps) error { return nil }
func (s *store) DeleteUserAccount(k string) error                      { delete(s.m, k); return nil }
func (s *store) ListUserAccounts() ([]auth.Account, error)             { return nil, nil }
func (s *store) Shutdown() error                                       { return nil }

func TestCreatedAccountHasAllAttributes(t *testing.T) {
	c := auth.NewCache(&store{m: map[string]auth.Account{}}, time.Minute, time.Minute)
	defer c.Shutdown()
	want := auth.Account{Access: "alice", Secret: "s3cr3t", Role: auth.RoleUser, UserID: 1001, GroupID: 2002}
	if err := c.CreateAccount(want); err != nil {
		t.Fatal(err)
	}
	got, err := c.GetUserAccount("alice")
	if err != nil || got != want {
		t.Fatalf("account right after creation: %+v, want %+v (uid/gid are used for file ownership)", got, want)
	}
}
