// Bounded stand-in for the part of C12 that is not under contract: for every payload, chunking, trailer mode and
// fragmentation of the encoded stream WITHIN THE BOUNDS BELOW, the real decoders return exactly the payload, and every
// proper prefix of a valid stream is rejected. Run inside package s3api/utils through a build overlay by
// /verif/bin/check C12 (labelled "bounded" in the evidence, never counted as a discharged obligation).
//
// Bounds (quick / thorough): payload length 0..5 / 0..7, every composition of the payload into chunks, readers called
// with buffer sizes {1,2,3,5,8,64,4096} / {1..9,16,64,4096}, the underlying stream delivered in fragments of one fixed
// size f for every f in 1..len(stream) and in every two-piece split, unsigned (crc32 trailer), signed, signed with
// sha256 trailer.
package utils

import (
	"bytes"
	"crypto/sha256"
	"encoding/base64"
	"encoding/hex"
	"fmt"
	"hash/crc32"
	"io"
	"os"
	"runtime"
	"strings"
	"sync"
	"testing"
	"time"
)

var bDate = time.Date(2025, 3, 4, 5, 6, 7, 0, time.UTC)

const (
	bRegion = "us-east-1"
	bSecret = "bounded-secret"
	bSeed   = "2222222222222222222222222222222222222222222222222222222222222222"
)

func bSigned(chunks [][]byte, trailer checksumType, payload []byte) []byte {
	key := getSigningKey(bSecret, bRegion, bDate)
	scope := fmt.Sprintf("%s/%s/s3/aws4_request", bDate.Format("20060102"), bRegion)
	stamp := bDate.Format("20060102T150405Z")
	prev := bSeed
	sign := func(c []byte) string {
		h := sha256.Sum256(c)
		sts := fmt.Sprintf("AWS4-HMAC-SHA256-PAYLOAD\n%s\n%s\n%s\n%s\n%s", stamp, scope, prev, zeroLenSig, hex.EncodeToString(h[:]))
		prev = hex.EncodeToString(hmac256(key, []byte(sts)))
		return prev
	}
	var b bytes.Buffer
	for _, c := range chunks {
		fmt.Fprintf(&b, "%x;chunk-signature=%s\r\n%s\r\n", len(c), sign(c), c)
	}
	fmt.Fprintf(&b, "0;chunk-signature=%s\r\n", sign(nil))
	if trailer != "" {
		hs, _ := getHasher(trailer)
		hs.Write(payload)
		cs := base64.StdEncoding.EncodeToString(hs.Sum(nil))
		th := sha256.Sum256([]byte(fmt.Sprintf("%s:%s\n", trailer, cs)))
		sts := fmt.Sprintf("AWS4-HMAC-SHA256-TRAILER\n%s\n%s\n%s\n%s", stamp, scope, prev, hex.EncodeToString(th[:]))
		tsig := hex.EncodeToString(hmac256(key, []byte(sts)))
		fmt.Fprintf(&b, "%s:%s\r\n%s:%s\r\n", trailer, cs, trailerSignatureHeader, tsig)
	}
	b.WriteString("\r\n")
	return b.Bytes()
}

func bUnsigned(chunks [][]byte, payload []byte) []byte {
	var b bytes.Buffer
	for _, c := range chunks {
		fmt.Fprintf(&b, "%x\r\n%s\r\n", len(c), c)
	}
	sum := crc32.ChecksumIEEE(payload)
	cs := base64.StdEncoding.EncodeToString([]byte{byte(sum >> 24), byte(sum >> 16), byte(sum >> 8), byte(sum)})
	fmt.Fprintf(&b, "0\r\nx-amz-checksum-crc32:%s\r\n\r\n", cs)
	return b.Bytes()
}

// fragReader delivers the stream in the given piece sizes (the last size repeats).
type fragReader struct {
	data  []byte
	sizes []int
	i     int
	pos   int
	cuts  []int // offsets in the stream where one read ended and the next began
}

func (f *fragReader) Read(p []byte) (int, error) {
	if len(f.data) == 0 {
		return 0, io.EOF
	}
	n := f.sizes[len(f.sizes)-1]
	if f.i < len(f.sizes) {
		n = f.sizes[f.i]
	}
	f.i++
	if n > len(f.data) {
		n = len(f.data)
	}
	if n > len(p) {
		n = len(p)
	}
	copy(p, f.data[:n])
	f.data = f.data[n:]
	f.pos += n
	if len(f.data) > 0 {
		f.cuts = append(f.cuts, f.pos)
	}
	return n, nil
}

// splitsMetadata: some read boundary falls strictly inside a run of non-payload bytes (chunk header, chunk
// terminator, terminating chunk, trailer), i.e. a piece of framing arrived split across two reads.
func splitsMetadata(isPayload []bool, cuts []int) bool {
	for _, c := range cuts {
		if c > 0 && c < len(isPayload) && !isPayload[c-1] && !isPayload[c] {
			return true
		}
	}
	return false
}

// payloadMask marks the offsets of the stream that carry payload bytes (framing is everything else).
func payloadMask(stream []byte, chunks [][]byte) []bool {
	mask := make([]bool, len(stream))
	off := 0
	for _, c := range chunks {
		i := bytes.Index(stream[off:], []byte("\r\n")) // end of this chunk's header line
		start := off + i + 2
		for k := 0; k < len(c); k++ {
			mask[start+k] = true
		}
		off = start + len(c) + 2
	}
	return mask
}

func compositions(n int) [][]int {
	if n == 0 {
		return [][]int{{}}
	}
	var out [][]int
	for first := 1; first <= n; first++ {
		for _, rest := range compositions(n - first) {
			out = append(out, append([]int{first}, rest...))
		}
	}
	return out
}

func readAllBuf(r io.Reader, bufSize int) (out []byte, err error) {
	defer func() {
		if p := recover(); p != nil {
			err = fmt.Errorf("PANIC in the decoder: %v", p)
		}
	}()
	buf := make([]byte, bufSize)
	for guard := 0; guard < 100000; guard++ {
		n, err := r.Read(buf)
		out = append(out, buf[:n]...)
		if err == io.EOF {
			return out, nil
		}
		if err != nil {
			return out, err
		}
	}
	return out, fmt.Errorf("reader does not terminate")
}

func TestBoundedC12(t *testing.T) {
	maxLen, bufs := 5, []int{1, 2, 3, 5, 8, 64, 4096}
	if os.Getenv("VERIF_TIER") == "thorough" {
		maxLen, bufs = 7, []int{1, 2, 3, 4, 5, 6, 7, 8, 9, 16, 64, 4096}
	}
	type mode struct {
		name string
		enc  func(chunks [][]byte, payload []byte) []byte
		dec  func(r io.Reader) (io.Reader, error)
	}
	modes := []mode{
		{"unsigned-crc32", func(c [][]byte, p []byte) []byte { return bUnsigned(c, p) },
			func(r io.Reader) (io.Reader, error) { return NewUnsignedChunkReader(r, checksumTypeCrc32, false) }},
		{"signed", func(c [][]byte, p []byte) []byte { return bSigned(c, "", p) },
			func(r io.Reader) (io.Reader, error) {
				return NewSignedChunkReader(r, AuthData{Signature: bSeed}, bRegion, bSecret, bDate, "", false)
			}},
		{"signed-sha256-trailer", func(c [][]byte, p []byte) []byte { return bSigned(c, checksumTypeSha256, p) },
			func(r io.Reader) (io.Reader, error) {
				return NewSignedChunkReader(r, AuthData{Signature: bSeed}, bRegion, bSecret, bDate, checksumTypeSha256, false)
			}},
	}
	cases, failures := 0, 0
	var mu sync.Mutex
	report := func(format string, a ...any) {
		mu.Lock()
		defer mu.Unlock()
		failures++
		if failures <= 5 {
			fmt.Printf("GOVC-BOUNDED: FAIL "+format+"\n", a...)
		}
	}
	var wg sync.WaitGroup
	sem := make(chan struct{}, runtime.NumCPU())
	for _, m := range modes {
		for n := 0; n <= maxLen; n++ {
			payload := []byte("abcdefghij")[:n]
			for _, comp := range compositions(n) {
				m, comp := m, comp
				wg.Add(1)
				sem <- struct{}{}
				go func() {
					defer func() { <-sem; wg.Done() }()
					local := 0
					defer func() { mu.Lock(); cases += local; mu.Unlock() }()
					var chunks [][]byte
					off := 0
					for _, k := range comp {
						chunks = append(chunks, payload[off:off+k])
						off += k
					}
					stream := m.enc(chunks, payload)
					var frags [][]int
					for f := 1; f <= len(stream); f++ {
						frags = append(frags, []int{f})
					}
					for a := 1; a < len(stream); a++ {
						frags = append(frags, []int{a, len(stream)})
					}
					for _, fr := range frags {
						for _, bs := range bufs {
							local++
							r, err := m.dec(&fragReader{data: stream, sizes: fr})
							if err != nil {
								report("%s: constructor: %v", m.name, err)
								continue
							}
							got, err := readAllBuf(r, bs)
							if err != nil || !bytes.Equal(got, payload) {
								report("%s payload=%q chunks=%v fragments=%v buffer=%d: got %q err=%v", m.name, payload, comp, fr, bs, got, err)
							}
						}
					}
					// every proper prefix of a valid stream must be rejected
					for cut := 0; cut < len(stream); cut++ {
						local++
						r, err := m.dec(&fragReader{data: append([]byte{}, stream[:cut]...), sizes: []int{4096}})
						if err != nil {
							continue
						}
						if got, err := readAllBuf(r, 4096); err == nil {
							report("%s payload=%q chunks=%v cut at %d of %d: accepted, %d bytes decoded", m.name, payload, comp, cut, len(stream), len(got))
						}
					}
					// nothing may follow a complete stream, whether it arrives with the last piece or in a read of its own
					for _, extra := range []string{"x", "\r\n", "0\r\n\r\n"} {
						for _, fr := range [][]int{{4096}, {len(stream), 4096}} {
							local++
							r, err := m.dec(&fragReader{data: append(append([]byte{}, stream...), extra...), sizes: fr})
							if err != nil {
								continue
							}
							if got, err := readAllBuf(r, 4096); err == nil {
								report("%s payload=%q chunks=%v followed by %q (reads %v): accepted, %d bytes decoded", m.name, payload, comp, extra, fr, len(got))
							}
						}
					}
				}()
			}
		}
	}
	wg.Wait()
	// headers around the size limit: the verdict on a stream (valid or not) is the same however it is cut into reads
	for _, zeros := range []int{0, 100, 900, 1000, 1005, 1006, 1007, 1008, 1009, 1010, 1020, 1024, 1025, 1100, 3000} {
		payload := []byte("ab")
		stream := bSigned([][]byte{payload}, "", payload)
		stream = append([]byte(strings.Repeat("0", zeros)), stream...)
		verdict := func(fr []int, bs int) string {
			r, err := NewSignedChunkReader(&fragReader{data: stream, sizes: fr}, AuthData{Signature: bSeed}, bRegion, bSecret, bDate, "", false)
			if err != nil {
				return "constructor error"
			}
			got, err := readAllBuf(r, bs)
			if err != nil {
				return "refused"
			}
			return "accepted " + string(got)
		}
		whole := verdict([]int{len(stream)}, 8192)
		for _, fr := range [][]int{{1}, {7}, {512}, {1000}, {1023}, {1024}, {1025}, {zeros + 1, len(stream)}, {zeros + 90, len(stream)}} {
			for _, bs := range []int{1, 100, 8192} {
				cases++
				if fr[0] < 1 {
					continue
				}
				if v := verdict(fr, bs); v != whole {
					report("signed, size field with %d leading zeros: %s in one read with an 8192 byte buffer, %s with fragments %v and a %d byte buffer", zeros, whole, v, fr, bs)
				}
			}
		}
	}
	fmt.Printf("GOVC-BOUNDED: cases=%d failures=%d maxlen=%d\n", cases, failures, maxLen)
}
