// Demonstrations for C07 through the real gateway and posix backend: explicit directory objects ("a/", "a/b/")
// listed without delimiter ignored the prefix and the marker.
package c07

import (
	"encoding/xml"
	"net/url"
	"strings"
	"testing"

	"replay/gwtest"
)

type listV2 struct {
	IsTruncated           bool
	NextContinuationToken string
	Contents              []struct{ Key string }
}

func list(t *testing.T, g *gwtest.GW, q string) listV2 {
	t.Helper()
	r := g.Get(g.RootC, "/bkt?list-type=2"+q, nil)
	if r.Err != nil || r.Status != 200 {
		t.Fatalf("ListObjectsV2 %q: %v", q, r)
	}
	var l listV2
	if err := xml.Unmarshal(r.Body, &l); err != nil {
		t.Fatalf("parse listing: %v\n%s", err, r.Body)
	}
	return l
}

func setup(t *testing.T) *gwtest.GW {
	g := gwtest.Start(t, gwtest.Options{})
	g.MustStatus(g.Put(g.RootC, "/bkt", nil, nil), 200, "create bucket")
	for _, k := range []string{"a/", "a/b/", "a/b/c1", "a/b/c2", "a/b/c3"} {
		g.MustStatus(g.Put(g.RootC, "/bkt/"+k, nil, nil), 200, "put "+k)
	}
	return g
}

// A listing with prefix a/b/c must not contain the directory objects a/ and a/b/.
func TestDirectoryObjectsRespectThePrefix(t *testing.T) {
	g := setup(t)
	l := list(t, g, "&prefix="+url.QueryEscape("a/b/c"))
	for _, c := range l.Contents {
		if len(c.Key) < 5 || c.Key[:5] != "a/b/c" {
			t.Errorf("listing with prefix a/b/c returned key %q", c.Key)
		}
	}
	if len(l.Contents) != 3 {
		t.Errorf("listing with prefix a/b/c returned %d keys, want 3", len(l.Contents))
	}
}

// Following the continuation tokens must terminate and return every key exactly once.
func TestPaginationOverDirectoryObjectsTerminates(t *testing.T) {
	g := setup(t)
	seen := map[string]int{}
	token := ""
	for page := 0; ; page++ {
		if page > 10 {
			t.Fatalf("listing with max-keys=2 did not terminate after 10 pages; keys so far: %v", seen)
		}
		q := "&max-keys=2"
		if token != "" {
			q += "&continuation-token=" + url.QueryEscape(token)
		}
		l := list(t, g, q)
		for _, c := range l.Contents {
			seen[c.Key]++
		}
		if !l.IsTruncated {
			break
		}
		token = l.NextContinuationToken
	}
	for _, k := range []string{"a/", "a/b/", "a/b/c1", "a/b/c2", "a/b/c3"} {
		if seen[k] != 1 {
			t.Errorf("key %q returned %d times, want once", k, seen[k])
		}
	}
}

// The bookkeeping directory of a bucket is skipped when a listing comes to it from above, but a prefix that points into
// it started the walk below the skipped directory: the part files of uploads in progress were listed as objects.
func TestListingBelowTheBookkeepingDirectoryIsEmpty(t *testing.T) {
	g := gwtest.Start(t, gwtest.Options{})
	g.MustStatus(g.Put(g.RootC, "/bkt", nil, nil), 200, "create bucket")
	r := g.Post(g.RootC, "/bkt/obj?uploads", nil, nil)
	g.MustStatus(r, 200, "initiate upload")
	id := string(r.Body)
	id = id[strings.Index(id, "<UploadId>")+len("<UploadId>") : strings.Index(id, "</UploadId>")]
	g.MustStatus(g.Put(g.RootC, "/bkt/obj?partNumber=1&uploadId="+id, []byte("part one"), nil), 200, "upload part")
	for _, q := range []string{"?prefix=.sgwtmp/multipart/", "?list-type=2&prefix=.sgwtmp/multipart/", "?prefix=.sgwtmp/", "?delimiter=/&prefix=.sgwtmp/multipart/"} {
		l := g.Get(g.RootC, "/bkt"+q, nil)
		if l.Status != 200 || strings.Contains(string(l.Body), "<Key>") || strings.Contains(string(l.Body), "<CommonPrefixes>") {
			t.Errorf("GET /bkt%s: %d %s", q, l.Status, l.Body)
		}
	}
}

// With a delimiter, a common prefix was dropped whenever the marker merely began like it: marker "a" (or "a-") lost the
// common prefix "a/", which sorts after the marker.
func TestCommonPrefixAfterTheMarkerIsListed(t *testing.T) {
	g := gwtest.Start(t, gwtest.Options{})
	g.MustStatus(g.Put(g.RootC, "/bkt", nil, nil), 200, "create bucket")
	for _, k := range []string{"a/x", "a/y", "b"} {
		g.MustStatus(g.Put(g.RootC, "/bkt/"+k, []byte("x"), nil), 200, "put "+k)
	}
	for _, m := range []string{"a", "a-", "a%2E"} {
		l := g.Get(g.RootC, "/bkt?delimiter=/&marker="+m, nil)
		if l.Status != 200 || !strings.Contains(string(l.Body), "<CommonPrefixes><Prefix>a/</Prefix></CommonPrefixes>") || !strings.Contains(string(l.Body), "<Key>b</Key>") {
			t.Errorf("GET /bkt?delimiter=/&marker=%s: %d %s\nwant the common prefix a/ and the key b", m, l.Status, l.Body)
		}
	}
	// a marker inside the common prefix, or the common prefix itself, still resumes after it
	for _, m := range []string{"a/", "a/x"} {
		l := g.Get(g.RootC, "/bkt?delimiter=/&marker="+m, nil)
		if strings.Contains(string(l.Body), "<Prefix>a/</Prefix>") || !strings.Contains(string(l.Body), "<Key>b</Key>") {
			t.Errorf("GET /bkt?delimiter=/&marker=%s: %s", m, l.Body)
		}
	}
}

// OPEN FINDING (fails on the current tree): with a delimiter, a directory that is not empty is never asked whether it is
// an object, so the directory object "d/" is missing from a listing with prefix "d/" once it has a child.
func TestDirectoryObjectWithChildrenIsListedUnderItsOwnPrefix(t *testing.T) {
	g := gwtest.Start(t, gwtest.Options{})
	g.MustStatus(g.Put(g.RootC, "/bkt", nil, nil), 200, "create bucket")
	g.MustStatus(g.Put(g.RootC, "/bkt/d/", nil, nil), 200, "put directory object d/")
	l := g.Get(g.RootC, "/bkt?delimiter=/&prefix=d/", nil)
	if !strings.Contains(string(l.Body), "<Key>d/</Key>") {
		t.Fatalf("empty directory object d/ under its own prefix: %s", l.Body)
	}
	g.MustStatus(g.Put(g.RootC, "/bkt/d/x", []byte("x"), nil), 200, "put d/x")
	l = g.Get(g.RootC, "/bkt?delimiter=/&prefix=d/", nil)
	if !strings.Contains(string(l.Body), "<Key>d/</Key>") || !strings.Contains(string(l.Body), "<Key>d/x</Key>") {
		t.Errorf("GET /bkt?delimiter=/&prefix=d/ after d/x was added: want the keys d/ and d/x, got %s", l.Body)
	}
	// without a delimiter both are listed
	l = g.Get(g.RootC, "/bkt?prefix=d/", nil)
	if !strings.Contains(string(l.Body), "<Key>d/</Key>") || !strings.Contains(string(l.Body), "<Key>d/x</Key>") {
		t.Errorf("GET /bkt?prefix=d/: %s", l.Body)
	}
}

// Only the entry named like the bookkeeping directory directly below the bucket is bookkeeping. A key with that name
// further down is a key like any other; it was left out of every listing and, being a file, it made the walk skip the
// rest of its directory (d/z vanished with it).
func TestAKeyNamedLikeTheBookkeepingDirectoryFurtherDownIsListed(t *testing.T) {
	g := gwtest.Start(t, gwtest.Options{})
	g.MustStatus(g.Put(g.RootC, "/bkt", nil, nil), 200, "create bucket")
	for _, k := range []string{"d/a", "d/.sgwtmp", "d/z", "e/.sgwtmp/inner", "top"} {
		g.MustStatus(g.Put(g.RootC, "/bkt/"+k, []byte("x"), nil), 200, "put "+k)
	}
	for _, q := range []string{"", "?delimiter=/&prefix=d/", "?list-type=2&prefix=e/"} {
		l := g.Get(g.RootC, "/bkt"+q, nil)
		for _, k := range []string{"d/a", "d/.sgwtmp", "d/z", "e/.sgwtmp/inner", "top"} {
			if q == "?delimiter=/&prefix=d/" && !strings.HasPrefix(k, "d/") || q == "?list-type=2&prefix=e/" && !strings.HasPrefix(k, "e/") {
				continue
			}
			if !strings.Contains(string(l.Body), "<Key>"+k+"</Key>") {
				t.Errorf("GET /bkt%s: the key %s is missing", q, k)
			}
		}
		if strings.Contains(string(l.Body), "<Key>.sgwtmp") || strings.Contains(string(l.Body), "<Prefix>.sgwtmp") {
			t.Errorf("GET /bkt%s shows the bookkeeping directory: %s", q, l.Body)
		}
	}
}

// A prefix that no key can have (an empty or dot segment: such keys are refused) matches nothing: the listing is empty.
// The walk handed the directory part of such a prefix to the file system, which refused it, and the request failed with 500.
func TestPrefixThatNoKeyCanHaveListsNothing(t *testing.T) {
	g := gwtest.Start(t, gwtest.Options{})
	g.MustStatus(g.Put(g.RootC, "/bkt", nil, nil), 200, "create bucket")
	g.MustStatus(g.Put(g.RootC, "/bkt/a/b", []byte("x"), nil), 200, "put a/b")
	for _, p := range []string{"a//", "../x", "a/../z", "a/./b", "/a"} {
		for _, q := range []string{"?prefix=", "?list-type=2&delimiter=/&prefix="} {
			l := g.Get(g.RootC, "/bkt"+q+strings.ReplaceAll(p, "/", "%2F"), nil)
			if l.Status != 200 || strings.Contains(string(l.Body), "<Key>") || strings.Contains(string(l.Body), "<CommonPrefixes>") {
				t.Errorf("GET /bkt%s%s: want an empty listing, got %d %s", q, p, l.Status, l.Body)
			}
		}
	}
}

// Key names are UTF-8. A key with a directory component that is not valid UTF-8 was stored; from then on every listing of
// the bucket that walks over it failed with 500 (io/fs refuses such a path), for every client, until the key was deleted.
func TestAKeyThatIsNotUTF8IsRefusedAndCannotBreakTheListing(t *testing.T) {
	g := gwtest.Start(t, gwtest.Options{})
	g.MustStatus(g.Put(g.RootC, "/bkt", nil, nil), 200, "create bucket")
	g.MustStatus(g.Put(g.RootC, "/bkt/good", []byte("x"), nil), 200, "put good")
	r := g.Put(g.RootC, "/bkt/d%FF/x", []byte("x"), nil)
	if r.Err != nil {
		t.Fatalf("no answer: %v", r.Err)
	}
	l := g.Get(g.RootC, "/bkt", nil)
	if l.Status != 200 || !strings.Contains(string(l.Body), "<Key>good</Key>") {
		t.Errorf("after PUT /bkt/d%%FF/x (answered %d) the bucket listing answers %d %s", r.Status, l.Status, l.Body)
	}
	if r.Status/100 == 2 {
		t.Errorf("a key that is not valid UTF-8 was stored (%d)", r.Status)
	}
}
