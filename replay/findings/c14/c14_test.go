// Demonstrations for C14 findings (policy evaluation follows the policy language exactly).
package c14

import (
	"encoding/json"
	"testing"

	"github.com/versity/versitygw/auth"
)

// '*' matches any run of characters, also when the subject itself contains '*' or '?'.
func TestGlobStarMatchesLiteralStar(t *testing.T) {
	var r auth.Resources
	for _, c := range []struct{ p, s string }{{"*", "*x"}, {"bkt/*", "bkt/*x"}, {"bkt/a*", "bkt/a*b"}, {"*?", "*ab"}} {
		if !r.Match(c.p, c.s) {
			t.Errorf("Match(%q, %q) = false, want true", c.p, c.s)
		}
	}
}

// consequence: a Deny on bkt/* must also deny the key "*x" (a legal S3 key)
func TestDenyCoversKeysContainingStar(t *testing.T) {
	doc := []byte(`{"Statement":[{"Effect":"Allow","Principal":"user1","Action":"s3:GetObject","Resource":"arn:aws:s3:::bkt/?x"},{"Effect":"Deny","Principal":"user1","Action":"s3:GetObject","Resource":"arn:aws:s3:::bkt/*"}]}`)
	var pol auth.BucketPolicy
	if err := json.Unmarshal(doc, &pol); err != nil {
		t.Fatal(err)
	}
	if err := auth.VerifyBucketPolicy(doc, "user1", "bkt", "*x", auth.GetObjectAction); err == nil {
		t.Fatalf("Deny on bkt/* does not cover key %q: request allowed", "*x")
	}
}

// A policy for bucket "mybucket" must not be accepted when a resource names another bucket
// that merely starts with the same characters.
func TestResourceOutsideBucketRefused(t *testing.T) {
	doc := []byte(`{"Statement":[{"Effect":"Allow","Principal":"*","Action":"s3:GetObject","Resource":"arn:aws:s3:::mybucket2/*"}]}`)
	if err := auth.ValidatePolicyDocument(doc, "mybucket", auth.NewIAMServiceSingle(auth.Account{Access: "root"})); err == nil {
		t.Fatalf("policy for bucket mybucket with resource mybucket2/* was accepted")
	}
}

// Action/resource kind mismatch must be refused whatever order the actions are visited in.
func TestActionResourceMismatchRefusedInEveryOrder(t *testing.T) {
	doc := []byte(`{"Statement":[{"Effect":"Allow","Principal":"*","Action":["s3:*","s3:GetObject"],"Resource":"arn:aws:s3:::mybucket"}]}`)
	accepted := 0
	for i := 0; i < 300; i++ {
		if err := auth.ValidatePolicyDocument(doc, "mybucket", auth.NewIAMServiceSingle(auth.Account{Access: "root"})); err == nil {
			accepted++
		}
	}
	if accepted != 0 {
		t.Fatalf("object action s3:GetObject on a bucket-only resource was accepted in %d of 300 runs (depends on map iteration order)", accepted)
	}
}
