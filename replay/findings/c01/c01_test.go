// Demonstrations for C01 through the real gateway and posix backend.
package c01

import (
	"context"
	"encoding/json"
	"os"
	"path/filepath"
	"strings"
	"testing"

	"github.com/aws/aws-sdk-go-v2/service/s3"
	"github.com/versity/versitygw/auth"
	"github.com/versity/versitygw/backend/meta"
	"github.com/versity/versitygw/backend/posix"
	"github.com/versity/versitygw/s3response"

	"replay/gwtest"
)

// HEAD of a directory object reported the size of the directory inode (4096) while GET and the listings say 0.
func TestHeadOfDirectoryObjectAgreesWithGet(t *testing.T) {
	g := gwtest.Start(t, gwtest.Options{})
	g.MustStatus(g.Put(g.RootC, "/bkt", nil, nil), 200, "create bucket")
	g.MustStatus(g.Put(g.RootC, "/bkt/dir/", nil, nil), 200, "put directory object")
	get := g.Get(g.RootC, "/bkt/dir/", nil)
	head := g.Head(g.RootC, "/bkt/dir/")
	if get.Status != 200 || head.Status != 200 || head.Header.Get("Content-Length") != get.Header.Get("Content-Length") || len(get.Body) != 0 {
		t.Errorf("GET: %d, Content-Length %s, %d bytes; HEAD: %d, Content-Length %s", get.Status, get.Header.Get("Content-Length"), len(get.Body),
			head.Status, head.Header.Get("Content-Length"))
	}
}

// With sidecar metadata the attributes of an object are not stored with the file: an overwrite kept the user metadata,
// content headers and tags of the object it replaced.
func TestOverwriteStartsWithoutTheOldMetadataSidecar(t *testing.T) {
	top := t.TempDir()
	root, side := filepath.Join(top, "root"), filepath.Join(top, "sidecar")
	os.MkdirAll(root, 0o755)
	os.MkdirAll(side, 0o755)
	sc, err := meta.NewSideCar(side)
	if err != nil {
		t.Fatal(err)
	}
	be, err := posix.New(root, sc, posix.PosixOpts{SideCarDir: side, NewDirPerm: 0o755})
	if err != nil {
		t.Fatal(err)
	}
	ctx := context.Background()
	bkt, key := "bkt", "obj"
	acl, _ := json.Marshal(auth.ACL{Owner: "o"})
	if err := be.CreateBucket(ctx, &s3.CreateBucketInput{Bucket: &bkt}, acl); err != nil {
		t.Fatal(err)
	}
	put := func(body string, md map[string]string, enc *string, tagging *string) {
		n := int64(len(body))
		_, err := be.PutObject(ctx, s3response.PutObjectInput{Bucket: &bkt, Key: &key, Body: strings.NewReader(body), ContentLength: &n,
			Metadata: md, ContentEncoding: enc, Tagging: tagging})
		if err != nil {
			t.Fatalf("put: %v", err)
		}
	}
	gz, tg := "gzip", "a=b"
	put("first", map[string]string{"old": "1"}, &gz, &tg)
	put("second", map[string]string{"new": "2"}, nil, nil)
	h, err := be.HeadObject(ctx, &s3.HeadObjectInput{Bucket: &bkt, Key: &key})
	if err != nil {
		t.Fatal(err)
	}
	if len(h.Metadata) != 1 || h.Metadata["new"] != "2" || (h.ContentEncoding != nil && *h.ContentEncoding != "") {
		t.Errorf("after the overwrite: metadata %v, content encoding %v; want only new=2 and no content encoding", h.Metadata, h.ContentEncoding)
	}
	if tags, err := be.GetObjectTagging(ctx, bkt, key); err == nil && len(tags) > 0 {
		t.Errorf("after the overwrite the object has the tags of the one it replaced: %v", tags)
	}
}
