// Demonstration for C19, run inside package s3event through a build overlay:
//   /verif/replay/inpkg.sh s3event /verif/replay/findings/c19/c19_inpkg_test.go '^TestC19'
package s3event

import (
	"net/http/httptest"
	"testing"

	"github.com/gofiber/fiber/v2"
	"github.com/versity/versitygw/auth"
)

// The event record is built in the handler but marshalled and sent by a goroutine afterwards. Bucket, a single-segment
// key, the source address and two header values were views of fiber's per-request buffers, which the next request
// overwrites: under concurrent traffic events named the bucket and key of another request.
func TestC19EventRecordDoesNotAliasTheRequest(t *testing.T) {
	app := fiber.New()
	var saved []EventSchema
	app.Put("/*", func(c *fiber.Ctx) error {
		c.Locals("account", auth.Account{Access: "acc"})
		c.Locals("region", "us-east-1")
		saved = append(saved, createEventSchema(c, EventMeta{EventName: EventObjectCreatedPut}, ConfigurationIdWebhook))
		return nil
	})
	for _, target := range []string{"/bucket-one/key1", "/bucket-two/key2", "/bucket-3333/key3"} {
		req := httptest.NewRequest("PUT", target, nil)
		req.Header.Set("X-Amz-Request-Id", "id-of-"+target)
		if _, err := app.Test(req); err != nil {
			t.Fatal(err)
		}
	}
	rec := saved[0].Records[0]
	if rec.S3.Bucket.Name != "bucket-one" || rec.S3.Object.Key != "key1" || rec.ResponseElements.RequestId != "id-of-/bucket-one/key1" {
		t.Errorf("the record built for PUT /bucket-one/key1 reads, after two more requests: bucket %q key %q request id %q",
			rec.S3.Bucket.Name, rec.S3.Object.Key, rec.ResponseElements.RequestId)
	}
}
