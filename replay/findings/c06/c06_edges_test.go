package c06

import (
	"bytes"
	"crypto/sha256"
	"encoding/base64"
	"encoding/binary"
	"encoding/hex"
	"fmt"
	"hash/crc32"
	"testing"
	"time"

	"replay/gwtest"
)

func crc32b64(b []byte) string {
	sum := make([]byte, 4)
	binary.BigEndian.PutUint32(sum, crc32.ChecksumIEEE(b))
	return base64.StdEncoding.EncodeToString(sum)
}

// A directory object put with an x-amz-checksum-crc32 value that is not the checksum of the (empty) body must be
// refused and leave the key absent; the directory branch drained the body without the checksum readers.
func TestDirectoryObjectWithWrongChecksumIsRefused(t *testing.T) {
	g := gwtest.Start(t, gwtest.Options{})
	g.MustStatus(g.Put(g.RootC, "/bkt", nil, nil), 200, "create bucket")
	g.MustStatus(g.Put(g.RootC, "/bkt/ok/", nil, map[string]string{"X-Amz-Checksum-Crc32": crc32b64(nil)}), 200, "directory object with the checksum of the empty body")
	r := g.Put(g.RootC, "/bkt/d3/", nil, map[string]string{"X-Amz-Checksum-Crc32": crc32b64(bytes.Repeat([]byte("x"), 5000))})
	if r.Err != nil {
		t.Fatalf("no answer: %v", r.Err)
	}
	h := g.Get(g.RootC, "/bkt/d3/", nil)
	if r.Status/100 == 2 {
		t.Errorf("directory object with the crc32 of 5000 other bytes was acknowledged: %v", r.Status)
	}
	if h.Status != 404 {
		t.Errorf("after the refused upload the key exists (GET %d)", h.Status)
	}
}

// A directory object that declares a decoded length of 0 but delivers 5000 chunked bytes must be refused.
func TestDirectoryObjectWithUndeclaredBytesIsRefused(t *testing.T) {
	g := gwtest.Start(t, gwtest.Options{})
	g.MustStatus(g.Put(g.RootC, "/bkt", nil, nil), 200, "create bucket")
	empty := g.Do(gwtest.Req{Method: "PUT", Target: "/bkt/ok/", Cred: g.RootC, Body: []byte("0\r\nx-amz-checksum-crc32:" + crc32b64(nil) + "\r\n\r\n"),
		Payload: "STREAMING-UNSIGNED-PAYLOAD-TRAILER",
		Header:  map[string]string{"Content-Encoding": "aws-chunked", "X-Amz-Trailer": "x-amz-checksum-crc32", "X-Amz-Decoded-Content-Length": "0"}})
	g.MustStatus(empty, 200, "empty chunked directory object")
	r := putChunked(g, "/bkt/d5/", bytes.Repeat([]byte("y"), 5000), 0)
	if r.Err != nil {
		t.Fatalf("no answer: %v", r.Err)
	}
	h := g.Get(g.RootC, "/bkt/d5/", nil)
	if r.Status/100 == 2 {
		t.Errorf("directory object declaring 0 decoded bytes with 5000 delivered was acknowledged: %v", r.Status)
	}
	if h.Status != 404 {
		t.Errorf("after the refused upload the key exists (GET %d)", h.Status)
	}
}

// A presigned upload that carries (and signs) an x-amz-content-sha256 value which is not the hash of the body must be
// refused; the presigned path never compared it.
func TestPresignedUploadWithWrongPayloadHashIsRefused(t *testing.T) {
	g := gwtest.Start(t, gwtest.Options{})
	g.MustStatus(g.Put(g.RootC, "/bkt", nil, nil), 200, "create bucket")
	body := bytes.Repeat([]byte("z"), 5000)
	hexOf := func(b []byte) string { s := sha256.Sum256(b); return hex.EncodeToString(s[:]) }
	put := func(key, sum string) *gwtest.Resp {
		hdr := map[string]string{"X-Amz-Content-Sha256": sum}
		u := g.PresignHdr(g.RootC, "PUT", "/bkt/"+key, 300, time.Now().UTC(), hdr)
		return g.Do(gwtest.Req{Method: "PUT", Target: u, NoAuth: true, Body: body, Header: hdr})
	}
	g.MustStatus(put("right", hexOf(body)), 200, "presigned upload with the true payload hash")
	g.MustStatus(put("unsigned", "UNSIGNED-PAYLOAD"), 200, "presigned upload with an unsigned payload")
	r := put("wrong", hexOf([]byte("other data")))
	if r.Err != nil {
		t.Fatalf("no answer: %v", r.Err)
	}
	h := g.Get(g.RootC, "/bkt/wrong", nil)
	if r.Status/100 == 2 {
		t.Errorf("presigned upload with the payload hash of other data was acknowledged: %v", r.Status)
	}
	if h.Status != 404 {
		t.Errorf("after the refused upload the key exists (GET %d, %d bytes)", h.Status, len(h.Body))
	}
	_ = fmt.Sprint
}
