package c01

import (
	"testing"

	"replay/gwtest"
)

// Putting a directory object again replaces its user metadata, as for any object: the second upload's metadata is what
// HEAD reports. The directory branch stored the new attributes on top of the old ones ({a:1} then {b:2} read back {a:1, b:2}).
func TestDirectoryObjectPutAgainReplacesItsUserMetadata(t *testing.T) {
	g := gwtest.Start(t, gwtest.Options{})
	g.MustStatus(g.Put(g.RootC, "/bkt", nil, nil), 200, "create bucket")
	g.MustStatus(g.Put(g.RootC, "/bkt/d/", nil, map[string]string{"X-Amz-Meta-A": "1"}), 200, "put d/ with a=1")
	g.MustStatus(g.Put(g.RootC, "/bkt/d/", nil, map[string]string{"X-Amz-Meta-B": "2"}), 200, "put d/ with b=2")
	h := g.Head(g.RootC, "/bkt/d/")
	g.MustStatus(h, 200, "head d/")
	if h.Header.Get("X-Amz-Meta-B") != "2" || h.Header.Get("X-Amz-Meta-A") != "" {
		t.Errorf("after the second upload HEAD reports a=%q b=%q, want only b=2", h.Header.Get("X-Amz-Meta-A"), h.Header.Get("X-Amz-Meta-B"))
	}
	if h.Header.Get("Content-Type") != "application/x-directory" {
		t.Errorf("content type %q", h.Header.Get("Content-Type"))
	}
}
