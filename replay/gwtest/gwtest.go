// Package gwtest starts the real gateway in-process (real middlewares, router, controllers and the
// real posix backend in a temporary directory) and sends raw, SigV4-signed HTTP requests to it.
// Used by replay files and finding demonstrations; nothing here is a model of the gateway.
package gwtest

import (
	"bufio"
	"bytes"
	"context"
	"crypto/sha256"
	"encoding/hex"
	"fmt"
	sdkv4 "github.com/aws/aws-sdk-go-v2/aws/signer/v4"
	"io"
	"net"
	"net/http"
	"os"
	"path/filepath"
	"sort"
	"strings"
	"testing"
	"time"

	"github.com/aws/aws-sdk-go-v2/aws"
	"github.com/gofiber/fiber/v2"
	"github.com/versity/versitygw/auth"
	v4 "github.com/versity/versitygw/aws/signer/v4"
	"github.com/versity/versitygw/backend"
	"github.com/versity/versitygw/backend/meta"
	"github.com/versity/versitygw/backend/posix"
	"github.com/versity/versitygw/s3api"
	"github.com/versity/versitygw/s3api/middlewares"
	"github.com/versity/versitygw/s3event"
	"github.com/versity/versitygw/s3log"
)

type Options struct {
	Readonly   bool
	Versioning bool
	EvSender   s3event.S3EventSender
	// Wrap, when set, receives the real posix backend and returns the backend the gateway uses
	// (e.g. the posix backend with one method overridden by a recording stub).
	Wrap func(backend.Backend) backend.Backend
	// IAMCache: run the internal IAM service behind the gateway's account cache (the gateway's default).
	IAMCache bool
	// AccessLog: write S3 access logs to a file below the temporary directory (the --access-log option)
	AccessLog bool
	// Admin: serve the admin API on the same port (the gateway's default when no admin port is given)
	Admin bool
}

type Cred struct{ Access, Secret string }

type GW struct {
	T      testing.TB
	Addr   string
	Root   string // gateway root directory
	Top    string // temp directory that contains Root (canaries live beside Root)
	RootC  Cred
	IAM    auth.IAMService
	Be     *posix.Posix
	app    *fiber.App
	Region string
}

// Start launches one gateway. posix.New changes the working directory, so one gateway per test process.
func Start(t testing.TB, o Options) *GW {
	t.Helper()
	top, err := os.MkdirTemp("", "gwreplay-")
	if err != nil {
		t.Fatal(err)
	}
	t.Cleanup(func() { os.RemoveAll(top) })
	root := filepath.Join(top, "gwroot")
	iamdir := filepath.Join(top, "iam")
	os.MkdirAll(root, 0o755)
	os.MkdirAll(iamdir, 0o755)
	popts := posix.PosixOpts{NewDirPerm: 0o755}
	if o.Versioning {
		vd := filepath.Join(top, "versions")
		os.MkdirAll(vd, 0o755)
		popts.VersioningDir = vd
	}
	be, err := posix.New(root, meta.XattrMeta{}, popts)
	if err != nil {
		t.Fatalf("posix.New: %v", err)
	}
	rootC := Cred{"rootaccess", "rootsecret"}
	iam, err := auth.New(&auth.Opts{
		RootAccount: auth.Account{Access: rootC.Access, Secret: rootC.Secret, Role: auth.RoleAdmin},
		Dir:         iamdir, CacheDisable: !o.IAMCache, CacheTTL: 120, CachePrune: 3600,
	})
	if err != nil {
		t.Fatalf("auth.New: %v", err)
	}
	app := fiber.New(fiber.Config{AppName: "versitygw", ServerHeader: "VERSITYGW", StreamRequestBody: true,
		DisableKeepalive: true, Network: fiber.NetworkTCP, DisableStartupMessage: true, BodyLimit: 64 << 20})
	opts := []s3api.Option{s3api.WithQuiet()}
	if o.Readonly {
		opts = append(opts, s3api.WithReadOnly())
	}
	if o.Admin {
		opts = append(opts, s3api.WithAdminServer())
	}
	var gwbe backend.Backend = be
	if o.Wrap != nil {
		gwbe = o.Wrap(be)
	}
	var alog s3log.AuditLogger
	if o.AccessLog {
		alog, err = s3log.InitFileLogger(filepath.Join(top, "access.log"))
		if err != nil {
			t.Fatalf("access log: %v", err)
		}
	}
	_, err = s3api.New(app, gwbe, middlewares.RootUserConfig{Access: rootC.Access, Secret: rootC.Secret}, ":0", "us-east-1", iam, alog, nil, o.EvSender, nil, opts...)
	if err != nil {
		t.Fatalf("s3api.New: %v", err)
	}
	ln, err := net.Listen("tcp", "127.0.0.1:0")
	if err != nil {
		t.Fatal(err)
	}
	go app.Listener(ln)
	t.Cleanup(func() { app.Shutdown() })
	g := &GW{T: t, Addr: ln.Addr().String(), Root: root, Top: top, RootC: rootC, IAM: iam, Be: be, app: app, Region: "us-east-1"}
	// wait until it answers
	for i := 0; i < 100; i++ {
		c, err := net.Dial("tcp", g.Addr)
		if err == nil {
			c.Close()
			break
		}
		time.Sleep(10 * time.Millisecond)
	}
	return g
}

func (g *GW) AddUser(access, secret string, role auth.Role) Cred {
	g.T.Helper()
	if err := g.IAM.CreateAccount(auth.Account{Access: access, Secret: secret, Role: role}); err != nil {
		g.T.Fatalf("create account: %v", err)
	}
	return Cred{access, secret}
}

type Resp struct {
	Sent   map[string]string // the request headers as sent
	Status int
	Header http.Header
	Body   []byte
	Err    error // connection-level error (e.g. the process side closed the connection)
}

func (r *Resp) String() string {
	if r.Err != nil {
		return "error: " + r.Err.Error()
	}
	return fmt.Sprintf("%d %s", r.Status, strings.TrimSpace(string(r.Body)))
}

type Req struct {
	Method     string
	Target     string // raw request target, sent as is (path + ?query)
	Header     map[string]string
	Body       []byte
	Cred       Cred
	SignAs     *Cred // when set, the signature is computed with these credentials but Cred.Access is announced
	NoAuth     bool
	Time       time.Time
	Payload    string // x-amz-content-sha256 value; default hex sha256 of the body
	SignTarget string // when set: the target the signature is computed over (Target is what goes on the wire)
	// CompactAuth: send the Authorization header with "," between its parts instead of ", " (both are accepted).
	CompactAuth bool
	// BodyFn, when set, builds the body once the request is signed (aws-chunked bodies chain from the request signature)
	BodyFn func(seedSignature string, at time.Time) []byte
	// NoContentLength: send the request without a Content-Length header (and without a body)
	NoContentLength bool
}

// Do signs (header SigV4, the repository's own signer with the gateway's settings) and sends the raw request.
func (g *GW) Do(r Req) *Resp {
	g.T.Helper()
	if r.Time.IsZero() {
		r.Time = time.Now().UTC()
	}
	hdr := map[string]string{}
	for k, v := range r.Header {
		hdr[k] = v
	}
	hdr["Host"] = g.Addr
	if !r.NoAuth {
		payload := r.Payload
		if payload == "" {
			s := sha256.Sum256(r.Body)
			payload = hex.EncodeToString(s[:])
		}
		hdr["X-Amz-Content-Sha256"] = payload
		hdr["X-Amz-Date"] = r.Time.Format("20060102T150405Z")
		st := r.Target
		if r.SignTarget != "" {
			st = r.SignTarget
		}
		full := "http://" + g.Addr + st
		if !strings.HasPrefix(st, "/") {
			full = st // as the gateway rebuilds it: a relative reference without host
		}
		hreq, err := http.NewRequest(r.Method, full, bytes.NewReader(r.Body))
		if err != nil {
			g.T.Fatalf("cannot build request for signing: %v", err)
		}
		var signed []string
		for k, v := range hdr {
			lk := strings.ToLower(k)
			if lk == "host" {
				continue
			}
			hreq.Header.Set(k, v)
			signed = append(signed, lk)
		}
		signed = append(signed, "host")
		sort.Strings(signed)
		hreq.Host = g.Addr
		hreq.ContentLength = 0
		secret := r.Cred.Secret
		if r.SignAs != nil {
			secret = r.SignAs.Secret
		}
		err = v4.NewSigner().SignHTTP(context.Background(), aws.Credentials{AccessKeyID: r.Cred.Access, SecretAccessKey: secret},
			hreq, payload, "s3", g.Region, r.Time, signed, func(o *v4.SignerOptions) { o.DisableURIPathEscaping = true })
		if err != nil {
			g.T.Fatalf("sign: %v", err)
		}
		hdr["Authorization"] = hreq.Header.Get("Authorization")
		if r.BodyFn != nil {
			a := hdr["Authorization"]
			r.Body = r.BodyFn(a[strings.LastIndex(a, "Signature=")+len("Signature="):], r.Time)
		}
		if r.CompactAuth {
			hdr["Authorization"] = strings.ReplaceAll(hdr["Authorization"], ", ", ",")
		}
	}
	var b bytes.Buffer
	fmt.Fprintf(&b, "%s %s HTTP/1.1\r\n", r.Method, r.Target)
	if _, ok := hdr["Content-Length"]; !ok && !r.NoContentLength {
		hdr["Content-Length"] = fmt.Sprint(len(r.Body))
	}
	var keys []string
	for k := range hdr {
		keys = append(keys, k)
	}
	sort.Strings(keys)
	for _, k := range keys {
		fmt.Fprintf(&b, "%s: %s\r\n", k, hdr[k])
	}
	b.WriteString("Connection: close\r\n\r\n")
	b.Write(r.Body)
	conn, err := net.DialTimeout("tcp", g.Addr, 5*time.Second)
	if err != nil {
		return &Resp{Err: err}
	}
	defer conn.Close()
	conn.SetDeadline(time.Now().Add(20 * time.Second))
	if _, err := conn.Write(b.Bytes()); err != nil {
		return &Resp{Err: err}
	}
	res, err := http.ReadResponse(bufio.NewReader(conn), &http.Request{Method: r.Method})
	if err != nil {
		return &Resp{Err: err}
	}
	defer res.Body.Close()
	body, _ := io.ReadAll(res.Body)
	return &Resp{Sent: hdr, Status: res.StatusCode, Header: res.Header, Body: body}
}

// Convenience wrappers.
func (g *GW) Put(c Cred, target string, body []byte, hdr map[string]string) *Resp {
	return g.Do(Req{Method: "PUT", Target: target, Body: body, Header: hdr, Cred: c})
}
func (g *GW) Get(c Cred, target string, hdr map[string]string) *Resp {
	return g.Do(Req{Method: "GET", Target: target, Header: hdr, Cred: c})
}
func (g *GW) Head(c Cred, target string) *Resp {
	return g.Do(Req{Method: "HEAD", Target: target, Cred: c})
}
func (g *GW) Delete(c Cred, target string, hdr map[string]string) *Resp {
	return g.Do(Req{Method: "DELETE", Target: target, Header: hdr, Cred: c})
}
func (g *GW) Post(c Cred, target string, body []byte, hdr map[string]string) *Resp {
	return g.Do(Req{Method: "POST", Target: target, Body: body, Header: hdr, Cred: c})
}

// MustStatus fails the test unless the response has the given status.
func (g *GW) MustStatus(r *Resp, want int, what string) {
	g.T.Helper()
	if r.Err != nil || r.Status != want {
		g.T.Fatalf("%s: want %d, got %s", what, want, r)
	}
}

// Presign returns the request target (path and query) of a presigned URL for method and target, signed with the AWS
// SDK's own signer the way a client does it (UNSIGNED-PAYLOAD, host as the only signed header).
func (g *GW) Presign(c Cred, method, target string, expires int, at time.Time) string {
	g.T.Helper()
	return g.PresignHdr(c, method, target, expires, at, nil)
}

// PresignHdr is Presign with request headers that are part of the signature (they have to be sent with the request).
func (g *GW) PresignHdr(c Cred, method, target string, expires int, at time.Time, hdr map[string]string) string {
	g.T.Helper()
	sep := "?"
	if strings.Contains(target, "?") {
		sep = "&"
	}
	req, err := http.NewRequest(method, "http://"+g.Addr+target+sep+"X-Amz-Expires="+fmt.Sprint(expires), nil)
	if err != nil {
		g.T.Fatalf("presign: %v", err)
	}
	for k, v := range hdr {
		req.Header.Set(k, v)
	}
	uri, _, err := sdkv4.NewSigner().PresignHTTP(context.Background(), aws.Credentials{AccessKeyID: c.Access, SecretAccessKey: c.Secret},
		req, "UNSIGNED-PAYLOAD", "s3", g.Region, at, func(o *sdkv4.SignerOptions) { o.DisableURIPathEscaping = true })
	if err != nil {
		g.T.Fatalf("presign: %v", err)
	}
	return strings.TrimPrefix(uri, "http://"+g.Addr)
}
