// Demonstration for C16: bucket names outside the S3 naming rules are refused on creation.
// S3: "Bucket names must not contain two adjacent periods."
package c16

import (
	"testing"

	"github.com/versity/versitygw/s3api/utils"
)

func TestAdjacentPeriodsRefused(t *testing.T) {
	for _, n := range []string{"a..b", "my..bucket", "abc...def"} {
		if utils.IsValidBucketName(n, false) {
			t.Errorf("bucket name %q is accepted", n)
		}
	}
	for _, n := range []string{"a.b", "my.bucket.name", "abc"} {
		if !utils.IsValidBucketName(n, false) {
			t.Errorf("bucket name %q is refused", n)
		}
	}
}
