package main

import (
	"encoding/json"
	"flag"
	"fmt"
	"os"
	"path/filepath"
	"runtime"
	"sort"
	"strconv"
	"strings"
	"sync"
	"time"

	"golang.org/x/tools/go/ssa"
	"golang.org/x/tools/go/ssa/ssautil"
)

type PropConfig struct {
	Property    string   `json:"property"`
	SafetyFuncs []string `json:"safety_funcs"` // glob patterns over shortFn names: functions swept for panics
	Checked     []string `json:"arith_checked"`
	NotCovered  []string `json:"not_covered"`
	Assumptions []string `json:"assumptions"`
	Bounded     []string `json:"bounded_cmds"`
	Standins    []BoundedStandin `json:"bounded_standins"`
	LevelNote   string   `json:"level_note"`
	// CopyEndpoints: repository types ("backend/posix.tmpfile") that the functions under contract hand to io.Copy (or
	// return as a body the HTTP layer copies from). The trusted contract of io.Copy (src.Read until the end, dst.Write)
	// holds for them only while they do not implement io.ReaderFrom / io.WriterTo, which io.Copy prefers.
	CopyEndpoints []string `json:"copy_endpoints"`
}

// BoundedStandin: an in-package test of the real code that stands in, within stated bounds, for a part of the property
// no contract within reach decides. Its cases never count as obligations; its failures are violations (with the failing
// input), except classes listed as open known findings.
type BoundedStandin struct {
	Name   string `json:"name"`
	PkgDir string `json:"pkg_dir"` // package directory relative to the repository
	Test   string `json:"test"`    // test file (under /verif)
	Run    string `json:"run"`     // -run pattern
	Bound  string `json:"bound"`   // the bound, in words
	Covers string `json:"covers"`  // what it stands in for
}

type KnownFinding struct {
	Property   string `json:"property"`
	Obligation string `json:"obligation"`
	What       string `json:"what"`
	Input      string `json:"input"`
	Status     string `json:"status"` // open | fixed
	Commit     string `json:"commit,omitempty"`
}

func main() {
	if len(os.Args) < 2 {
		fmt.Fprintln(os.Stderr, "usage: govc check|dump|baseline ...")
		os.Exit(2)
	}
	switch os.Args[1] {
	case "check", "baseline":
		os.Exit(cmdCheck(os.Args[1], os.Args[2:]))
	case "dump":
		os.Exit(cmdDump(os.Args[2:]))
	case "frames":
		os.Exit(cmdFrames(os.Args[2:]))
	default:
		fmt.Fprintln(os.Stderr, "unknown command", os.Args[1])
		os.Exit(2)
	}
}

func readJSON(path string, v any) error {
	b, err := os.ReadFile(path)
	if err != nil {
		return err
	}
	return json.Unmarshal(b, v)
}

// selectFuncs: functions to encode for a property.
func selectFuncs(eng *Engine, prop string, cfg *PropConfig) (map[*ssa.Function]bool, map[*ssa.Function]bool, []string) {
	sel := map[*ssa.Function]bool{}
	safety := map[*ssa.Function]bool{}
	var unresolved []string
	seenFC := map[*FuncContract]bool{}
	for _, fc := range eng.cs.Funcs {
		if fc.Iface || seenFC[fc] {
			continue
		}
		seenFC[fc] = true
		fn := eng.findFunc(fc)
		if fn == nil || len(fn.Blocks) == 0 {
			if !fc.Trusted {
				unresolved = append(unresolved, fc.Key+" ("+fc.File+")")
			}
			continue
		}
		if fc.Trusted {
			continue
		}
		for _, c := range fc.Clauses {
			if c.Kind != "requires" && c.hasProp(prop) && len(c.Props) > 0 {
				sel[fn] = true
			}
		}
	}
	// callers of functions with tagged preconditions; safety sets
	for fn := range ssautil.AllFunctions(eng.prog) {
		if !eng.isRepoFn(fn) {
			continue
		}
		name := shortFn(fn)
		if cfg != nil {
			for _, pat := range cfg.SafetyFuncs {
				if matchPat(pat, name) {
					safety[fn] = true
					sel[fn] = true
				}
			}
		}
		for _, b := range fn.Blocks {
			for _, in := range b.Instrs {
				ci, ok := in.(ssa.CallInstruction)
				if !ok {
					continue
				}
				cc := ci.Common()
				var fc *FuncContract
				if cc.IsInvoke() {
					if n := namedOf(cc.Value.Type()); n != nil && n.Obj().Pkg() != nil {
						fc = eng.contractByKey("iface:" + n.Obj().Pkg().Path() + "." + n.Obj().Name() + "." + cc.Method.Name())
					}
				} else if callee := cc.StaticCallee(); callee != nil {
					fc = eng.contractOf(callee)
				}
				if fc == nil {
					continue
				}
				for _, c := range fc.Clauses {
					if c.Kind == "requires" && len(c.Props) > 0 && c.hasProp(prop) {
						sel[fn] = true
					}
				}
			}
		}
	}
	// function literals inside a selected function belong to it
	var addAnon func(fn *ssa.Function)
	addAnon = func(fn *ssa.Function) {
		for _, a := range fn.AnonFuncs {
			if !sel[a] {
				sel[a] = true
				if safety[fn] {
					safety[a] = true
				}
			}
			addAnon(a)
		}
	}
	for fn := range sel {
		addAnon(fn)
	}
	return sel, safety, unresolved
}

type encResult struct {
	fn  *ssa.Function
	enc *FEnc
	err string
}

func encodeAll(eng *Engine, prop string, sel, safety map[*ssa.Function]bool, cfg *PropConfig) []encResult {
	var fns []*ssa.Function
	for fn := range sel {
		fns = append(fns, fn)
	}
	sort.Slice(fns, func(i, j int) bool { return fns[i].String() < fns[j].String() })
	res := make([]encResult, len(fns))
	var wg sync.WaitGroup
	sem := make(chan struct{}, runtime.NumCPU())
	for i, fn := range fns {
		wg.Add(1)
		go func(i int, fn *ssa.Function) {
			defer wg.Done()
			sem <- struct{}{}
			defer func() { <-sem }()
			e := eng.newFEnc(fn, prop)
			e.safety = safety[fn]
			e.checked = e.fc != nil && hasFunctional(e.fc) && !e.fc.ArithAssumed
			if cfg != nil {
				for _, pat := range cfg.Checked {
					if matchPat(pat, shortFn(fn)) {
						e.checked = true
					}
				}
			}
			r := encResult{fn: fn, enc: e}
			func() {
				defer func() {
					if p := recover(); p != nil {
						buf := make([]byte, 4096)
						n := runtime.Stack(buf, false)
						r.err = fmt.Sprintf("%v\n%s", p, buf[:n])
					}
				}()
				e.run()
			}()
			res[i] = r
		}(i, fn)
	}
	wg.Wait()
	return res
}

func hasFunctional(fc *FuncContract) bool {
	if fc.Trusted {
		return false
	}
	for _, c := range fc.Clauses {
		if c.Kind == "ensures" || c.Kind == "invariant" {
			return true
		}
	}
	return false
}

func hasProp(ps []string, p string) bool {
	for _, x := range ps {
		if x == p {
			return true
		}
	}
	return false
}

func cmdCheck(mode string, argv []string) int {
	fs := flag.NewFlagSet("check", flag.ExitOnError)
	prop := fs.String("prop", "", "property id")
	tier := fs.String("tier", "quick", "quick|thorough")
	repo := fs.String("repo", "/repo", "repository")
	verif := fs.String("verif", "/verif", "verification directory")
	keep := fs.Bool("keep", false, "keep SMT files")
	outDir := fs.String("out", "", "directory for evidence/ and replays/ (default: the verification directory)")
	verbose := fs.Bool("v", false, "verbose")
	fs.Parse(argv)
	t0 := time.Now()
	if *prop == "" {
		fmt.Fprintln(os.Stderr, "missing -prop")
		return 2
	}
	seed := 0
	if s := os.Getenv("VERIF_SEED"); s != "" {
		seed, _ = strconv.Atoi(s)
	}
	var cfg PropConfig
	_ = readJSON(filepath.Join(*verif, "props", *prop+".json"), &cfg)
	eng, err := loadEngine(*repo, filepath.Join(*verif, "contracts", "trusted"))
	if err != nil {
		fmt.Fprintln(os.Stderr, "govc: load error:", err)
		return 2
	}
	loadSecs := time.Since(t0).Seconds()
	sel, safety, unresolved := selectFuncs(eng, *prop, &cfg)
	results := encodeAll(eng, *prop, sel, safety, &cfg)
	encSecs := time.Since(t0).Seconds() - loadSecs

	var obls []*Obligation
	allHits := map[*Clause]int{}
	var encErrors, undecidedClauses, notes []string
	funcsUnder := []string{}
	abstracted := map[string][]string{}
	calleeContracts := map[string]bool{}
	for _, r := range results {
		name := shortFn(r.fn)
		if r.err != "" {
			encErrors = append(encErrors, name+": "+strings.SplitN(r.err, "\n", 2)[0])
			if *verbose {
				fmt.Fprintln(os.Stderr, r.err)
			}
			continue
		}
		funcsUnder = append(funcsUnder, name)
		for _, u := range r.enc.unsupported {
			undecidedClauses = append(undecidedClauses, name+": "+u)
		}
		if len(r.enc.notes) > 0 {
			abstracted[name] = r.enc.notes
		}
		for k := range r.enc.calleesUsed {
			calleeContracts[k] = true
		}
		for c, n := range r.enc.atCallHits {
			allHits[c] += n
		}
		for _, o := range r.enc.obls {
			if hasProp(o.Props, *prop) {
				obls = append(obls, o)
			}
		}
	}
	// at-call clauses that matched no call site (in the function or the function literals inside it)
	// cannot generate their obligation
	for _, r := range results {
		if r.err != "" || r.enc.fc == nil || r.fn.Parent() != nil && eng.contractOf(r.fn.Parent()) == r.enc.fc {
			continue
		}
		for _, c := range r.enc.fc.Clauses {
			if c.Kind == "atcall" && !c.Optional && c.hasProp(*prop) && allHits[c] == 0 {
				undecidedClauses = append(undecidedClauses, fmt.Sprintf("%s: at-call %s [%s] matched no call site", shortFn(r.fn), c.Pat, c.Label))
			}
		}
	}
	for _, u := range unresolved {
		undecidedClauses = append(undecidedClauses, "contract block does not resolve to a function: "+u)
	}
	// lemmas
	for _, lm := range eng.cs.Lemmas {
		if !hasProp(lm.Props, *prop) {
			continue
		}
		o, err := lemmaObligation(eng, lm)
		if err != nil {
			undecidedClauses = append(undecidedClauses, "lemma "+lm.Name+": "+err.Error())
			continue
		}
		obls = append(obls, o)
	}
	// vacuity covers: entry of every function under contract must be satisfiable together with its requires
	var covers []*Obligation
	for _, r := range results {
		if r.err != "" || r.enc.fc == nil {
			continue
		}
		hasReq := false
		for _, c := range r.enc.fc.Clauses {
			if c.Kind == "requires" || c.Kind == "invariant" {
				hasReq = true
			}
		}
		if !hasReq {
			continue
		}
		covers = append(covers, coverObligations(r.enc, *prop)...)
	}
	sort.SliceStable(obls, func(i, j int) bool { return obls[i].Name < obls[j].Name })
	// unique names
	seen := map[string]int{}
	for _, o := range obls {
		seen[o.Name]++
		if seen[o.Name] > 1 {
			o.Name = fmt.Sprintf("%s~%d", o.Name, seen[o.Name])
		}
	}

	work, _ := os.MkdirTemp("", "govc-"+*prop+"-")
	if !*keep {
		defer os.RemoveAll(work)
	} else {
		fmt.Fprintln(os.Stderr, "SMT files in", work)
	}
	opt := SolveOpts{Secs: 10, WorkDir: work, NoRetry: map[string]bool{}}
	{
		var kfs []KnownFinding
		_ = readJSON(filepath.Join(*verif, "known_findings.json"), &kfs)
		for _, k := range kfs {
			if k.Status == "open" {
				opt.NoRetry[k.Obligation] = true
			}
		}
	}
	if *tier == "thorough" {
		opt.Secs = 60
		opt.All = true
	}
	// the zero-annotation safety sweep: in the quick tier only the obligations claimed in the baseline are
	// re-proved (each discharged in well under a second on the pinned tree); solved by z3 alone, no retry
	var baseline []string
	_ = readJSON(filepath.Join(*verif, "baseline", *prop+".json"), &baseline)
	inBase := map[string]bool{}
	for _, n := range baseline {
		inBase[n] = true
	}
	var nopanic []string
	_ = readJSON(filepath.Join(*verif, "baseline", *prop+".nopanic.json"), &nopanic)
	noPanicFn := map[string]bool{}
	for _, n := range nopanic {
		noPanicFn[n] = true
	}
	var contractObls, safetyObls []*Obligation
	skippedSafety := 0
	for _, o := range obls {
		if isSafetyKind(o.Kind) {
			if noPanicFn[o.Func] {
				o.Claimed = true // the whole function is under a no-panic contract: also new obligations count
			}
			if mode == "check" && *tier != "thorough" && !inBase[o.Name] && !o.Claimed {
				o.Status = "not-attempted"
				skippedSafety++
				continue
			}
			safetyObls = append(safetyObls, o)
		} else {
			contractObls = append(contractObls, o)
		}
	}
	all := append(append([]*Obligation{}, contractObls...), covers...)
	ts := time.Now()
	solveAll(all, opt, (runtime.NumCPU()+1)/2)
	if len(safetyObls) > 0 {
		sopt := SolveOpts{Secs: 4, WorkDir: work, Solo: true, Retry: true, NoRetry: map[string]bool{}}
		if mode == "baseline" {
			sopt.Secs = 2
		}
		solveAll(safetyObls, sopt, runtime.NumCPU())
	}
	solveWall := time.Since(ts).Seconds()
	_ = skippedSafety

	if mode == "baseline" {
		var names []string
		for _, o := range obls {
			if isSafetyKind(o.Kind) && o.Status == "discharged" {
				names = append(names, o.Name)
			}
		}
		sort.Strings(names)
		os.MkdirAll(filepath.Join(*verif, "baseline"), 0o755)
		b, _ := json.MarshalIndent(names, "", " ")
		os.WriteFile(filepath.Join(*verif, "baseline", *prop+".json"), append(b, '\n'), 0o644)
		// functions all of whose safety obligations discharge: they are under a no-panic contract as a whole
		tot, ok := map[string]int{}, map[string]int{}
		for _, o := range obls {
			if isSafetyKind(o.Kind) {
				tot[o.Func]++
				if o.Status == "discharged" {
					ok[o.Func]++
				}
			}
		}
		var clean []string
		for f, n := range tot {
			if ok[f] == n {
				clean = append(clean, f)
			}
		}
		sort.Strings(clean)
		b2, _ := json.MarshalIndent(clean, "", " ")
		os.WriteFile(filepath.Join(*verif, "baseline", *prop+".nopanic.json"), append(b2, '\n'), 0o644)
		fmt.Printf("baseline: %d functions are panic-free as a whole\n", len(clean))
		fmt.Printf("baseline: %d safety obligations discharged of %d\n", len(names), countSafety(obls))
		var open []string
		for _, o := range obls {
			if isSafetyKind(o.Kind) && o.Status != "discharged" {
				open = append(open, fmt.Sprintf("%s [%s] %s", o.Name, o.Status, o.Pos))
			}
		}
		sort.Strings(open)
		// for the record only (never read by a check): the fault sites not proved safe on the pinned tree
		os.WriteFile(filepath.Join(*verif, "baseline", *prop+".open.txt"), []byte(strings.Join(open, "\n")+"\n"), 0o644)
		return 0
	}
	if *outDir == "" {
		*outDir = *verif
	}
	return report(eng, *prop, *tier, seed, *verif, *outDir, &cfg, obls, covers, funcsUnder, abstracted, calleeContracts, encErrors, undecidedClauses, notes,
		loadSecs, encSecs, solveWall, time.Since(t0).Seconds(), *verbose)
}

func isSafetyKind(k string) bool {
	switch k {
	case "idx", "slice", "nil", "div", "make", "alloc", "assert", "panic":
		return true
	}
	return false
}

func countSafety(obls []*Obligation) int {
	n := 0
	for _, o := range obls {
		if isSafetyKind(o.Kind) {
			n++
		}
	}
	return n
}

func lemmaObligation(eng *Engine, lm *Lemma) (*Obligation, error) {
	e := eng.newFEnc(nil, "")
	e.isLemma = true
	for i, l := range eng.cs.Lemmas {
		if l == lm {
			e.lemmaIndex = i
		}
	}
	e.noFacts = true
	defer func() { e.noFacts = false }()
	env := &Env{fe: e, vars: map[string]*Val{}, bound: map[string]*Val{}, pkg: eng.pkgByPath(lm.PkgPath)}
	for _, p := range lm.Params {
		s, ty, err := e.sortOfName(env, p.Type)
		if err != nil {
			return nil, err
		}
		nm := "|" + p.Name + "|"
		e.consts = append(e.consts, fmt.Sprintf("(declare-const %s %s)", nm, s))
		if s == "Str" {
			e.facts = append(e.facts, fmt.Sprintf("(>= (len_s %s) 0)", nm))
		}
		env.vars[p.Name] = &Val{Ty: ty, Sort: s, T: nm}
	}
	var rq, en []string
	for _, r := range lm.Requires {
		t, err := e.evalBool(env, r)
		if err != nil {
			return nil, err
		}
		rq = append(rq, t)
	}
	for _, r := range lm.Ensures {
		t, err := e.evalBool(env, r)
		if err != nil {
			return nil, err
		}
		en = append(en, t)
	}
	if lm.Induction != nil {
		m, err := e.eval(env, lm.Induction)
		if err != nil {
			return nil, err
		}
		// induction hypothesis: the lemma for all arguments of smaller non-negative measure
		ienv := &Env{fe: e, vars: map[string]*Val{}, bound: map[string]*Val{}, pkg: env.pkg}
		var decl []string
		for _, p := range lm.Params {
			s, ty, _ := e.sortOfName(env, p.Type)
			nm := "|ih_" + p.Name + "|"
			ienv.bound[p.Name] = &Val{Ty: ty, Sort: s, T: nm}
			decl = append(decl, fmt.Sprintf("(%s %s)", nm, s))
		}
		var irq, ien []string
		for _, r := range lm.Requires {
			t, err := e.evalBool(ienv, r)
			if err != nil {
				return nil, err
			}
			irq = append(irq, t)
		}
		for _, r := range lm.Ensures {
			t, err := e.evalBool(ienv, r)
			if err != nil {
				return nil, err
			}
			ien = append(ien, t)
		}
		im, err := e.eval(ienv, lm.Induction)
		if err != nil {
			return nil, err
		}
		ih := fmt.Sprintf("(forall (%s) %s)", strings.Join(decl, " "),
			implies(and(append(irq, fmt.Sprintf("(<= 0 %s)", e.term(im)), fmt.Sprintf("(< %s %s)", e.term(im), e.term(m)))...), and(ien...)))
		e.facts = append(e.facts, ih)
	}
	for _, r := range rq {
		e.facts = append(e.facts, r)
	}
	e.noFacts = false
	e.ghostDecls()
	o := &Obligation{Name: "lemma#" + lm.Name, Kind: "lemma", Props: lm.Props, Func: "lemma " + lm.Name, Pos: fmt.Sprintf("%s:%d", strings.TrimPrefix(lm.File, "/repo/"), lm.Line),
		Desc: lm.Src, NFacts: len(e.facts), Goal: and(en...), fe: e}
	return o, nil
}

// coverObligations: the assumptions made at function entry (requires) and at each loop head (invariant)
// must be satisfiable, otherwise everything after them is proved vacuously.
func coverObligations(e *FEnc, prop string) []*Obligation {
	var out []*Obligation
	o := &Obligation{Name: e.fnName() + "#cover#entry", Kind: "cover", Func: e.fnName(), NFacts: len(e.facts), Goal: "true", Cover: true, fe: e,
		Desc: "requires, invariants and callee postconditions assumed in this function are jointly satisfiable"}
	out = append(out, o)
	for _, li := range e.loops {
		if li.hstate == nil || len(li.invs) == 0 {
			continue
		}
		out = append(out, &Obligation{Name: fmt.Sprintf("%s#cover#loop%d", e.fnName(), li.ord), Kind: "cover", Func: e.fnName(), NFacts: len(e.facts),
			Goal: li.hstate.reach, Cover: true, fe: e, Desc: "loop head reachable under the invariant"})
	}
	return out
}

func cmdDump(argv []string) int {
	fs := flag.NewFlagSet("dump", flag.ExitOnError)
	fn := fs.String("func", "", "substring of function name")
	prop := fs.String("prop", "", "property")
	repo := fs.String("repo", "/repo", "repo")
	verif := fs.String("verif", "/verif", "verif dir")
	ob := fs.String("ob", "", "print the SMT query of the obligation whose name contains this")
	ssaDump := fs.Bool("ssa", false, "print SSA")
	safety := fs.Bool("safety", false, "enable safety obligations")
	solve := fs.Bool("solve", false, "solve obligations")
	parts := fs.Bool("parts", false, "one obligation per program point (to locate a failing part)")
	fs.Parse(argv)
	eng, err := loadEngine(*repo, filepath.Join(*verif, "contracts", "trusted"))
	if err != nil {
		fmt.Fprintln(os.Stderr, err)
		return 2
	}
	var fns []*ssa.Function
	for f := range ssautil.AllFunctions(eng.prog) {
		if eng.isRepoFn(f) && strings.Contains(shortFn(f), *fn) {
			fns = append(fns, f)
		}
	}
	sort.Slice(fns, func(i, j int) bool { return fns[i].String() < fns[j].String() })
	for _, f := range fns {
		if *ssaDump {
			f.WriteTo(os.Stdout)
		}
		e := eng.newFEnc(f, *prop)
		e.safety = *safety
		e.splitParts = *parts
		e.checked = e.fc != nil && hasFunctional(e.fc)
		func() {
			defer func() {
				if p := recover(); p != nil {
					buf := make([]byte, 2048)
					n := runtime.Stack(buf, false)
					fmt.Printf("PANIC in %s: %v\n%s\n", shortFn(f), p, buf[:n])
				}
			}()
			e.run()
		}()
		fmt.Printf("== %s: %d obligations, %d facts, %d consts; contract=%v\n", shortFn(f), len(e.obls), len(e.facts), len(e.consts), e.fc != nil)
		for _, u := range e.unsupported {
			fmt.Println("   UNSUPPORTED:", u)
		}
		for _, n := range e.notes {
			fmt.Println("   note:", n)
		}
		if *solve {
			work, _ := os.MkdirTemp("", "govc-dump-")
			solveAll(e.obls, SolveOpts{Secs: 10, WorkDir: work, Keep: true}, runtime.NumCPU())
			fmt.Println("   smt files:", work)
		}
		for _, o := range e.obls {
			fmt.Printf("   %-12s %s  %s %s [%s %.2fs] %v\n", o.Status, o.Name, o.Pos, o.Props, o.Solver, o.Secs, trunc(o.Desc, 80))
			if o.Status == "refuted" {
				fmt.Printf("       model: %v\n", o.Model)
			}
			if o.Status == "error" || o.Status == "undecided" {
				fmt.Printf("       %s\n", trunc(o.Raw, 300))
			}
			if *ob != "" && strings.Contains(o.Name, *ob) {
				q, err := o.query(true)
				if err != nil {
					fmt.Println("query error:", err)
				}
				fmt.Println(q)
			}
		}
	}
	return 0
}
