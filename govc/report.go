package main

// Deciding a check from solved obligations: VIOLATION / KNOWN-FINDING lines, evidence file.

import (
	"bytes"
	"context"
	"encoding/json"
	"fmt"
	"os"
	"os/exec"
	"path/filepath"
	"sort"
	"strings"
	"time"
)

// runStandin runs one bounded stand-in against the repository under check (build overlay, nothing written there).
func runStandin(eng *Engine, sd BoundedStandin, tier, prop, replayDir string, openKF map[string]KnownFinding) (res map[string]any, violations []string, known []string, fatal string) {
	repo := eng.repo
	tmp, err := os.MkdirTemp("", "govc-standin")
	if err != nil {
		return nil, nil, nil, err.Error()
	}
	defer os.RemoveAll(tmp)
	ov, _ := json.Marshal(map[string]any{"Replace": map[string]string{filepath.Join(repo, sd.PkgDir, "zz_govc_standin_test.go"): sd.Test}})
	ovFile := filepath.Join(tmp, "ov.json")
	os.WriteFile(ovFile, ov, 0o644)
	ctx, cancel := context.WithTimeout(context.Background(), 30*time.Minute)
	defer cancel()
	cmd := exec.CommandContext(ctx, "go", "test", "-v", "-overlay", ovFile, "-vet=off", "-count=1", "-timeout", "25m", "-run", sd.Run, ".")
	cmd.Dir = filepath.Join(repo, sd.PkgDir)
	cmd.Env = append(os.Environ(), "GOFLAGS=-mod=mod", "GOPROXY=off", "GOSUMDB=off", "GOTOOLCHAIN=local", "GOGC=1000", "VERIF_TIER="+tier)
	var out bytes.Buffer
	cmd.Stdout, cmd.Stderr = &out, &out
	t0 := time.Now()
	_ = cmd.Run()
	log := out.String()
	res = map[string]any{"name": sd.Name, "bounded": true, "bound": sd.Bound, "stands_in_for": sd.Covers, "test": sd.Test, "secs": round2(time.Since(t0).Seconds())}
	summary := ""
	var fails, knownLines []string
	for _, l := range strings.Split(log, "\n") {
		l = strings.TrimSpace(l)
		switch {
		case strings.HasPrefix(l, "GOVC-BOUNDED: FAIL "):
			fails = append(fails, strings.TrimPrefix(l, "GOVC-BOUNDED: FAIL "))
		case strings.HasPrefix(l, "GOVC-BOUNDED: KNOWN "):
			knownLines = append(knownLines, strings.TrimPrefix(l, "GOVC-BOUNDED: KNOWN "))
		case strings.HasPrefix(l, "GOVC-BOUNDED: cases="):
			summary = strings.TrimPrefix(l, "GOVC-BOUNDED: ")
		}
	}
	if summary == "" {
		return res, nil, nil, "bounded stand-in " + sd.Name + " did not run to its end:\n" + trunc2(log, 1500)
	}
	res["summary"] = summary
	res["failing_cases_shown"] = len(fails)
	for _, k := range knownLines {
		f := strings.Fields(k) // <mode> <class> failing=N passing=M
		if len(f) < 2 {
			continue
		}
		name := "bounded:" + prop + ":" + sd.Name + ":" + f[0] + ":" + f[1]
		if kf, ok := openKF[name]; ok {
			known = append(known, fmt.Sprintf("KNOWN-FINDING: property=%s %s — %s (%s; input: %s)", prop, name, kf.What, strings.Join(f[2:], " "), kf.Input))
		} else {
			fails = append(fails, "class "+f[0]+" "+f[1]+" ("+strings.Join(f[2:], " ")+") is not a listed finding")
		}
	}
	res["known_classes"] = knownLines
	if len(fails) > 0 {
		path := filepath.Join(replayDir, "bounded_"+sd.Name+".txt")
		var b strings.Builder
		fmt.Fprintf(&b, "property: %s\nbounded stand-in: %s\nbound: %s\nrun: /verif/replay/inpkg.sh %s %s '%s'\n\nfailing cases on the real code (first ones):\n", prop, sd.Name, sd.Bound, sd.PkgDir, sd.Test, sd.Run)
		for _, f := range fails {
			b.WriteString("  " + f + "\n")
		}
		b.WriteString("\n" + summary + "\n")
		os.WriteFile(path, []byte(b.String()), 0o644)
		violations = append(violations, fmt.Sprintf("VIOLATION property=%s replay=%s obligation=bounded:%s:%s status=failing-input cases=%d", prop, path, prop, sd.Name, len(fails)))
	}
	return res, violations, known, ""
}

func report(eng *Engine, prop, tier string, seed int, verif, outDir string, cfg *PropConfig, obls, covers []*Obligation,
	funcs []string, abstracted map[string][]string, calleeContracts map[string]bool, encErrors, undecidedClauses, notes []string,
	loadSecs, encSecs, solveWall, wall float64, verbose bool) int {

	var kfs []KnownFinding
	_ = readJSON(filepath.Join(verif, "known_findings.json"), &kfs)
	var baseline []string
	_ = readJSON(filepath.Join(verif, "baseline", prop+".json"), &baseline)
	inBase := map[string]bool{}
	for _, n := range baseline {
		inBase[n] = true
	}
	openKF := map[string]KnownFinding{}
	for _, k := range kfs {
		if k.Property == prop && k.Status == "open" {
			openKF[k.Obligation] = k
		}
	}

	if len(obls) == 0 {
		fmt.Printf("govc: no obligations generated for %s — this is an error of the check, not a result\n", prop)
		return 2
	}
	if len(encErrors) > 0 {
		for _, e := range encErrors {
			fmt.Println("govc: encoder error:", e)
		}
		return 2
	}

	replayDir := filepath.Join(outDir, "replays", prop)
	os.RemoveAll(replayDir)
	os.MkdirAll(replayDir, 0o755)

	var violations []string
	var knownHit, undecidedNew, kfObls []string
	discharged, claimed := 0, 0
	notAttempted := 0
	solverSecs := 0.0
	bySolver := map[string]int{}
	byKind := map[string][2]int{}
	var samples []any
	for _, o := range obls {
		solverSecs += o.Secs
		safety := isSafetyKind(o.Kind)
		if safety && !inBase[o.Name] && !o.Claimed {
			// not claimed: a safety obligation that did not discharge on the pinned tree, or a new one
			if o.Status == "not-attempted" {
				notAttempted++
				continue
			}
			if o.Status != "discharged" {
				undecidedNew = append(undecidedNew, fmt.Sprintf("%s [%s] %s", o.Name, o.Status, o.Pos))
				continue
			}
		}
		if kf, ok := openKF[o.Name]; ok && o.Status != "discharged" {
			fmt.Printf("KNOWN-FINDING: property=%s %s — %s (input: %s)\n", prop, o.Name, kf.What, kf.Input)
			knownHit = append(knownHit, o.Name)
			kfObls = append(kfObls, o.Name)
			continue
		}
		claimed++
		k := byKind[o.Kind]
		k[0]++
		if o.Status == "discharged" {
			discharged++
			k[1]++
			bySolver[o.Solver]++
		}
		byKind[o.Kind] = k
		if len(samples) < 6 && o.Status == "discharged" && !safety {
			samples = append(samples, map[string]any{"obligation": o.Name, "clause": o.Desc, "at": o.Pos, "solver": o.Solver, "secs": round2(o.Secs), "smt_bytes": o.Size})
		}
		if o.Status == "discharged" {
			continue
		}
		path, confirmed := writeReplay(eng, replayDir, prop, o)
		line := fmt.Sprintf("VIOLATION property=%s replay=%s obligation=%s status=%s at=%s", prop, path, o.Name, o.Status, o.Pos)
		if !confirmed {
			line += " no-failing-input-found"
		}
		violations = append(violations, line)
	}
	var standinRes []any
	for _, sd := range cfg.Standins {
		res, vs, kn, fatal := runStandin(eng, sd, tier, prop, replayDir, openKF)
		if fatal != "" {
			fmt.Println("govc:", fatal)
			return 2
		}
		standinRes = append(standinRes, res)
		for _, k := range kn {
			fmt.Println(k)
			knownHit = append(knownHit, k)
		}
		violations = append(violations, vs...)
	}
	// frame declarations (pure / frame none) of repository functions this check relies on: those that passed the
	// syntactic frame check on the pinned tree (baseline/frames_ok.json) must still pass
	frameInfo := map[string]any{}
	{
		var okBase []string
		_ = readJSON(filepath.Join(verif, "baseline", "frames_ok.json"), &okBase)
		wasOK := map[string]bool{}
		for _, n := range okBase {
			wasOK[n] = true
		}
		used := map[string]bool{}
		for _, f := range funcs {
			used[f] = true
		}
		for _, k := range sortedKeys(eng.fnByKey) {
			fn := eng.fnByKey[k]
			if !eng.isRepoFn(fn) {
				continue
			}
			if c := eng.contractOf(fn); c != nil && calleeContracts[c.Key] {
				used[shortFn(fn)] = true
			}
		}
		verdicts := frameVerdicts(eng)
		var checked, assumed []string
		for _, n := range sortedKeys(verdicts) {
			if !used[n] {
				continue
			}
			if verdicts[n] == "" {
				checked = append(checked, n)
				continue
			}
			assumed = append(assumed, n+": "+verdicts[n])
			if wasOK[n] {
				path := filepath.Join(replayDir, trunc(reSafeName.ReplaceAllString(n+"#frame", "_"), 120)+".txt")
				os.WriteFile(path, []byte(fmt.Sprintf("property: %s\nobligation: %s#frame#declared\nThe function is declared pure / frame none and is used as such at call sites of this check; the declaration passed the syntactic frame check on the pinned tree and no longer does: it %s.\nno-failing-input-found\n", prop, n, verdicts[n])), 0o644)
				violations = append(violations, fmt.Sprintf("VIOLATION property=%s replay=%s obligation=%s#frame#declared status=frame-declaration-broken no-failing-input-found", prop, path, n))
			}
		}
		frameInfo["checked_syntactically"] = checked
		frameInfo["assumed"] = assumed
	}
	copyInfo := map[string]string{}
	for _, tn := range cfg.CopyEndpoints {
		verdict := copyUpgrade(eng, tn)
		copyInfo[tn] = "no ReadFrom / WriteTo method: io.Copy uses Read and Write (go/types method set)"
		if verdict != "" {
			copyInfo[tn] = verdict
			name := tn + "#copy#io.Copy-uses-Read-and-Write"
			path := filepath.Join(replayDir, trunc(reSafeName.ReplaceAllString(name, "_"), 120)+".txt")
			os.WriteFile(path, []byte(fmt.Sprintf("property: %s\nobligation: %s\nThe contracts of this check describe what the type does in Read / Write; %s. No contract covers that method, so what the copy does is undecided.\nno-failing-input-found\n", prop, name, verdict)), 0o644)
			violations = append(violations, fmt.Sprintf("VIOLATION property=%s replay=%s obligation=%s status=undecided no-failing-input-found", prop, path, name))
		}
	}
	coverFail := 0
	for _, c := range covers {
		solverSecs += c.Secs
		if c.Status == "refuted" {
			coverFail++
			fmt.Printf("govc: vacuity: assumptions of %s are contradictory (%s)\n", c.Func, c.Name)
		}
	}
	if len(samples) == 0 {
		for _, o := range obls {
			if o.Status == "discharged" {
				samples = append(samples, map[string]any{"obligation": o.Name, "clause": o.Desc, "at": o.Pos, "solver": o.Solver, "secs": round2(o.Secs), "smt_bytes": o.Size})
				if len(samples) >= 4 {
					break
				}
			}
		}
	}
	for i, u := range undecidedClauses {
		fmt.Println("UNDECIDED:", u)
		// a clause of a contract this check relies on cannot be evaluated on this tree (a name it mentions is gone, a
		// call it governs no longer exists): what it stated is no longer established. None occurs on the pinned tree.
		fn := u
		if k := strings.Index(u, ": "); k > 0 {
			fn = u[:k]
		}
		name := fmt.Sprintf("%s#clause#cannot-be-evaluated@%d", fn, i+1)
		path := filepath.Join(replayDir, trunc(reSafeName.ReplaceAllString(name, "_"), 120)+".txt")
		os.WriteFile(path, []byte(fmt.Sprintf("property: %s\nobligation: %s\nA contract clause this check relies on cannot be evaluated on the current tree:\n  %s\nWhat the clause stated is therefore not established.\nno-failing-input-found\n", prop, name, u)), 0o644)
		violations = append(violations, fmt.Sprintf("VIOLATION property=%s replay=%s obligation=%s status=undecided no-failing-input-found", prop, path, name))
	}
	if verbose {
		for _, o := range obls {
			fmt.Printf("  %-11s %-6s %6.2fs %s  (%s)\n", o.Status, o.Solver, o.Secs, o.Name, o.Pos)
		}
		for _, u := range undecidedNew {
			fmt.Println("  note: unclaimed safety obligation:", u)
		}
	}
	for _, v := range violations {
		fmt.Println(v)
	}

	sort.Strings(funcs)
	var abs []string
	for _, k := range sortedKeys(abstracted) {
		abs = append(abs, k+": "+strings.Join(abstracted[k], "; "))
	}
	kinds := map[string]any{}
	for k, v := range byKind {
		kinds[k] = map[string]int{"generated": v[0], "discharged": v[1]}
	}
	assumptions := []string{
		"VC generator (/verif/govc) and go/ssa construction are trusted; SMT solvers trusted (z3 5.1.0 first, cvc5 1.0.3 and z3 4.8.12 raced on unknown; thorough tier requires agreement)",
		"integers are mathematical with the type's range assumed for inputs; functions under a functional contract get a no-overflow obligation per arithmetic result (kind ovf), elsewhere results wrap modulo 2^n exactly as in Go",
		"strings are an uninterpreted sort with length and byte-at functions; library string functions only through the trusted contracts listed under trusted_base",
		"callees do not retain pointers to caller locals beyond the call; interior pointers that are stored and reloaded are not tracked as aliases; append is modelled as allocating",
		"package-level variables are treated as constants during a call",
		"goroutines, channels, select, unsafe, reflection are outside the model (functions using them are listed as abstracted)",
		"pointer receivers are assumed non-nil; a pointer, map, function or interface captured by a function literal from a never-reassigned parameter inherits that parameter's assumptions",
		"variables captured by reference are private to the defining function and its function literals (a callee reaches them only by running a literal); arrays made by a function and never stored, captured or handed to a call keep their elements across that call",
		"frame clauses on repository functions (pure, frame none, modifies, preserves-args) are declarations: they are used at call sites and not proved",
		"library sentinel errors (io.EOF, io.ErrUnexpectedEOF, fs.SkipDir, fs.SkipAll, …) and package-level errors.New values are non-nil, pairwise distinct values of the errors package's string-error type",
		"counterexample replay (replay.go) runs generated tests against the real code; a violation is marked confirmed only when the real code shows the failure",
	}
	assumptions = append(assumptions, cfg.Assumptions...)
	var trusted []string
	trusted = append(trusted, eng.trusted...)
	cov := map[string]any{
		"obligations":                  claimed,
		"discharged":                   discharged,
		"checker_cmd":                  fmt.Sprintf("/verif/bin/check %s %s  (govc: go/ssa -> SMT-LIB; z3-new | cvc5 | z3)", prop, tier),
		"trusted_base":                 trusted,
		"samples":                      samples,
		"functions_under_contract":     funcs,
		"abstracted_functions":         abs,
		"obligations_by_kind":          kinds,
		"discharged_by_backend":        bySolver,
		"solver_seconds_total":         round2(solverSecs),
		"solve_wall_s":                 round2(solveWall),
		"load_s":                       round2(loadSecs),
		"encode_s":                     round2(encSecs),
		"known_finding_obligations":    kfObls,
		"unclaimed_safety_obligations": len(undecidedNew) + notAttempted,
		"unclaimed_safety_not_attempted_in_quick": notAttempted,
		"undecided_clauses":                       undecidedClauses,
		"vacuity_covers":                          map[string]int{"checked": len(covers), "contradictory": coverFail},
		"not_covered":                             cfg.NotCovered,
		"bounded_standins":                        standinRes,
		"frame_declarations":                      frameInfo,
		"copy_endpoints":                          copyInfo,
		"contract_files":                          eng.contractFiles,
		"callee_contracts_used":                   sortedKeys(calleeContracts),
	}
	ev := map[string]any{
		"property_id": prop,
		"tier":        tier,
		"seed":        seed,
		"level":       "proof",
		"coverage":    cov,
		"assumptions": assumptions,
		"wall_s":      round2(wall),
		"violations":  len(violations),
	}
	os.MkdirAll(filepath.Join(outDir, "evidence"), 0o755)
	b, _ := json.MarshalIndent(ev, "", " ")
	if err := os.WriteFile(filepath.Join(outDir, "evidence", prop+".json"), append(b, '\n'), 0o644); err != nil {
		fmt.Fprintln(os.Stderr, "govc: cannot write evidence:", err)
		return 2
	}
	fmt.Printf("govc: %s %s: %d obligations claimed, %d discharged, %d known-finding, %d unclaimed safety, %d functions, %.1fs (load %.1f, encode %.1f, solve %.1f)\n",
		prop, tier, claimed, discharged, len(knownHit), len(undecidedNew), len(funcs), wall, loadSecs, encSecs, solveWall)
	if coverFail > 0 {
		return 2
	}
	if len(violations) > 0 {
		return 1
	}
	return 0
}

func round2(f float64) float64 { return float64(int(f*100+0.5)) / 100 }

// writeReplay writes the replay artefact of a failed obligation. Confirmed replays are produced by
// replay templates (replay.go); otherwise the file names the obligation and carries the solver output.
func writeReplay(eng *Engine, dir, prop string, o *Obligation) (string, bool) {
	name := reSafeName.ReplaceAllString(o.Name, "_")
	path := filepath.Join(dir, trunc(name, 120)+".txt")
	var b strings.Builder
	fmt.Fprintf(&b, "property: %s\nobligation: %s\nkind: %s\nfunction: %s\nat: %s\nclause: %s\nstatus: %s (solver %s, %.2fs)\n", prop, o.Name, o.Kind, o.Func, o.Pos, o.Desc, o.Status, o.Solver, o.Secs)
	if len(o.Model) > 0 {
		b.WriteString("model (verifier counterexample):\n")
		for _, k := range sortedKeys(o.Model) {
			fmt.Fprintf(&b, "  %s = %s\n", k, o.Model[k])
		}
	}
	confirmed := false
	if o.Status == "refuted" || o.Status == "undecided" {
		if txt, ok := tryReplay(eng, o); txt != "" {
			b.WriteString("\nreplay against the real code:\n" + txt + "\n")
			confirmed = ok
		}
	}
	if !confirmed {
		b.WriteString("\nno-failing-input-found: the obligation is not discharged on the current tree; solver output follows\n")
	}
	b.WriteString("\nsolver output:\n" + trunc2(o.Raw, 4000) + "\n")
	os.WriteFile(path, []byte(b.String()), 0o644)
	return path, confirmed
}

func trunc2(s string, n int) string {
	if len(s) > n {
		return s[:n] + "\n…"
	}
	return s
}
