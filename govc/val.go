package main

// Engine-level values, pointers and the per-block symbolic state.

import (
	"fmt"
	"go/types"
	"strings"

	"golang.org/x/tools/go/ssa"
)

type Val struct {
	Ty     types.Type // Go type when known
	Sort   string     // SMT sort
	T      string     // materialised SMT term ("" for exploded structs / engine pointers / tuples)
	Fields []*Val     // exploded struct value
	P      *Ptr       // engine-level pointer
	NilIf  string     // for engine-level pointers that may be nil: the condition under which they are
	Tup    []*Val     // tuple (multi-result call)
	Box    *Val       // for interface values made from a tracked value: the boxed value (reachability)
}

const (
	rLocal = iota
	rRef
	rElem
	rGlobal
)

type PathEl struct {
	Field int    // >= 0: struct field
	Index string // Field == -1: array index term
}

type Ptr struct {
	Root   int
	Alloc  int
	Ref    string     // rRef: pointer term
	Elem   types.Type // type of the root object
	Base   string     // rElem: backing array id (Ref term)
	Idx    string     // rElem: absolute index term
	Global *ssa.Global
	Path   []PathEl
}

func (p *Ptr) key() string {
	var b strings.Builder
	switch p.Root {
	case rLocal:
		fmt.Fprintf(&b, "L%d", p.Alloc)
	case rRef:
		fmt.Fprintf(&b, "R%s", p.Ref)
	case rElem:
		fmt.Fprintf(&b, "E%s@%s", p.Base, p.Idx)
	case rGlobal:
		fmt.Fprintf(&b, "G%s", p.Global.String())
	}
	for _, e := range p.Path {
		if e.Field >= 0 {
			fmt.Fprintf(&b, ".%d", e.Field)
		} else {
			fmt.Fprintf(&b, "[%s]", e.Index)
		}
	}
	return b.String()
}

func (p *Ptr) extend(el PathEl) *Ptr {
	q := *p
	q.Path = append(append([]PathEl{}, p.Path...), el)
	return &q
}

type AllocInfo struct {
	ID         int
	Ty         types.Type // pointee type
	Instr      *ssa.Alloc
	Name       string
	Weak       bool         // contents no longer tracked (reads give arbitrary values)
	Aliased    bool         // a pointer to it was stored somewhere or handed to a callee
	MergedInto int          // id+1 of the merge object that replaced it at a control-flow join (0: none)
	Embedded   map[int]bool // locals whose address was written into this object's (possibly materialised) content
	GhostSort  string       // ghost cell (e.g. visited set of a map iteration): SMT sort of its content
	Published  bool         // array published to the element heap via a Slice instruction
}

type State struct {
	reach   string
	cells   map[int]*Val
	heap    map[string]string
	epoch   int
	leaked  map[int]bool      // locals whose address escaped on the paths leading here
	pub     map[int]*Val      // content of a local as last copied into the heap (nil entry: not current)
	lastRes map[string]*Val   // ghost: callee name -> result of the most recent call on this path
	called  map[string]string // ghost: callee name -> Bool term "a call to it was executed on the way here"
	ncalls  map[string]string // ghost: callee name -> Int term, the number of calls to it executed on the way here
}

// countCall advances the ghost counter of calls to name
func (s *State) countCall(name string) {
	if s.ncalls == nil {
		s.ncalls = map[string]string{}
	}
	prev, ok := s.ncalls[name]
	if !ok {
		prev = "0"
	}
	s.ncalls[name] = "(+ " + prev + " 1)"
}

func (s *State) clone() *State {
	n := &State{reach: s.reach, epoch: s.epoch, cells: make(map[int]*Val, len(s.cells)), heap: make(map[string]string, len(s.heap)), leaked: make(map[int]bool, len(s.leaked))}
	for k := range s.leaked {
		n.leaked[k] = true
	}
	n.lastRes = make(map[string]*Val, len(s.lastRes))
	for k, v := range s.lastRes {
		n.lastRes[k] = v
	}
	n.called = make(map[string]string, len(s.called))
	for k, v := range s.called {
		n.called[k] = v
	}
	n.ncalls = make(map[string]string, len(s.ncalls))
	for k, v := range s.ncalls {
		n.ncalls[k] = v
	}
	n.pub = make(map[int]*Val, len(s.pub))
	for k, v := range s.pub {
		n.pub[k] = v
	}
	for k, v := range s.cells {
		n.cells[k] = v
	}
	for k, v := range s.heap {
		n.heap[k] = v
	}
	return n
}

func sameVal(a, b *Val) bool {
	if a == b {
		return true
	}
	if a == nil || b == nil {
		return false
	}
	if a.T != "" && a.T == b.T {
		return true
	}
	if a.P != nil && b.P != nil && a.P.key() == b.P.key() && a.NilIf == b.NilIf {
		return true
	}
	if a.Fields != nil && b.Fields != nil && len(a.Fields) == len(b.Fields) {
		for i := range a.Fields {
			if !sameVal(a.Fields[i], b.Fields[i]) {
				return false
			}
		}
		return true
	}
	return false
}
