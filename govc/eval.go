package main

// Evaluation of contract expressions to SMT terms in a given symbolic state.

import (
	"fmt"
	"go/constant"
	"go/token"
	"go/types"
	"strconv"
	"strings"

	"golang.org/x/tools/go/ssa"
)

type Env struct {
	lenient bool // a boolean sub-expression over names that do not exist (yet) at this point is an arbitrary truth value
	fe      *FEnc
	st      *State
	old     *State
	vars    map[string]*Val
	blk     *ssa.BasicBlock // for source-variable lookup (nil: none)
	idx     int
	pkg     *types.Package
	bound   map[string]*Val
	call    ssa.Instruction // the call an at-call clause is evaluated at
}

func (e *FEnc) fnEnv(st, old *State, extra map[string]*Val) *Env {
	env := &Env{fe: e, st: st, old: old, vars: map[string]*Val{}, pkg: e.fn.Pkg.Pkg, bound: map[string]*Val{}}
	for i, p := range e.fn.Params {
		env.vars[p.Name()] = e.vals[p]
		env.vars[fmt.Sprintf("in%d", i)] = e.vals[p] // positional alias (a parameter named err is shadowed by the result)
	}
	for k, v := range extra {
		env.vars[k] = v
	}
	return env
}

func (e *FEnc) fnEnvAt(st, old *State, blk *ssa.BasicBlock, idx int) *Env {
	env := e.fnEnv(st, old, nil)
	env.blk = blk
	env.idx = idx
	if idx < 0 {
		// "at the loop head": after the phis
		n := 0
		for _, in := range blk.Instrs {
			if _, ok := in.(*ssa.Phi); ok {
				n++
			} else {
				break
			}
		}
		env.idx = n
	}
	return env
}

func (e *FEnc) bindResults(env *Env, sig *types.Signature, rs []*Val) {
	res := sig.Results()
	for i, r := range rs {
		env.vars[fmt.Sprintf("ret%d", i)] = r
		if i < res.Len() {
			if n := res.At(i).Name(); n != "" && n != "_" {
				env.vars[n] = r
			}
		}
	}
	if len(rs) > 0 {
		env.vars["result"] = rs[0]
		last := rs[len(rs)-1]
		if last.Sort == "Iface" && res.Len() > 0 && types.TypeString(res.At(res.Len()-1).Type(), nil) == "error" {
			env.vars["err"] = last
		}
	}
}

func (e *FEnc) evalBool(env *Env, x *Ex) (string, error) {
	v, err := e.eval(env, x)
	if err != nil {
		if env.lenient && strings.Contains(err.Error(), "unknown name") && !e.noFacts {
			// the clause mentions a local that does not exist at this program point: its truth value is
			// arbitrary here, so the obligation can only hold through the other operands
			return e.fresh("unk", "Bool"), nil
		}
		return "", err
	}
	if v.Sort != "Bool" {
		return "", fmt.Errorf("expression %s is not boolean (sort %s)", x, v.Sort)
	}
	return e.term(v), nil
}

func (e *FEnc) sortOfName(env *Env, name string) (string, types.Type, error) {
	if strings.HasPrefix(name, "[]") {
		_, ty, err := e.sortOfName(env, name[2:])
		if err != nil {
			return "", nil, err
		}
		if ty == nil {
			return "Slice", nil, nil
		}
		return "Slice", types.NewSlice(ty), nil
	}
	if strings.HasPrefix(name, "*") {
		_, ty, err := e.sortOfName(env, name[1:])
		if err != nil {
			return "", nil, err
		}
		if ty == nil {
			return "Ref", nil, nil
		}
		return "Ref", types.NewPointer(ty), nil
	}
	switch name {
	case "int", "int64", "int32", "uint", "uint64", "byte", "uint8", "uint32", "int8", "int16", "uint16":
		var t types.Type
		for _, b := range types.Typ {
			if b.Name() == name {
				t = b
			}
		}
		if name == "byte" {
			t = types.Typ[types.Uint8]
		}
		return "Int", t, nil
	case "string":
		return "Str", types.Typ[types.String], nil
	case "bool":
		return "Bool", types.Typ[types.Bool], nil
	case "error":
		return "Iface", types.Universe.Lookup("error").Type(), nil
	case "Ref":
		return "Ref", nil, nil
	case "Iface":
		return "Iface", nil, nil
	}
	pkg := env.pkg
	tv, err := types.Eval(e.eng.prog.Fset, pkg, token.NoPos, name)
	if err != nil || !tv.IsType() {
		// try every loaded package by name
		if i := strings.Index(name, "."); i > 0 {
			pn, tn := strings.TrimLeft(name[:i], "*[]"), name[i+1:]
			for _, p := range e.eng.allTypesPkgs() {
				if p.Name() == pn {
					if obj := p.Scope().Lookup(tn); obj != nil {
						if _, ok := obj.(*types.TypeName); ok {
							t := obj.Type()
							if strings.HasPrefix(name, "*") {
								t = types.NewPointer(t)
							}
							if strings.HasPrefix(name, "[]") {
								t = types.NewSlice(t)
							}
							return e.sortOf(t), t, nil
						}
					}
				}
			}
		}
		return "", nil, fmt.Errorf("unknown type %q", name)
	}
	return e.sortOf(tv.Type), tv.Type, nil
}

func (e *FEnc) constOf(env *Env, name string) (*Val, bool) {
	lookupIn := func(p *types.Package, n string) (*Val, bool) {
		obj := p.Scope().Lookup(n)
		if obj == nil {
			return nil, false
		}
		switch o := obj.(type) {
		case *types.Const:
			return e.constToVal(o.Val(), o.Type()), true
		case *types.Var:
			if cv, ok := e.eng.globalInit(o); ok {
				return e.constToVal(cv, o.Type()), true
			}
			// package-level variable: treated as a constant cell
			nm := "G_" + mangle(p.Path()+"."+n)
			e.d.add("c:"+nm, fmt.Sprintf("(declare-const %s %s)", nm, e.sortOf(o.Type())))
			e.globalInitFact(o, nm)
			return &Val{Ty: o.Type(), Sort: e.sortOf(o.Type()), T: nm}, true
		}
		return nil, false
	}
	if i := strings.Index(name, "."); i > 0 {
		pn, n := name[:i], name[i+1:]
		if strings.Contains(n, ".") {
			return nil, false
		}
		for _, p := range e.eng.allTypesPkgs() {
			if p.Name() == pn {
				if v, ok := lookupIn(p, n); ok {
					return v, true
				}
			}
		}
		return nil, false
	}
	if env.pkg != nil {
		if v, ok := lookupIn(env.pkg, name); ok {
			return v, true
		}
	}
	return nil, false
}

func (e *FEnc) constToVal(cv constant.Value, ty types.Type) *Val {
	switch cv.Kind() {
	case constant.Bool:
		if constant.BoolVal(cv) {
			return &Val{Ty: ty, Sort: "Bool", T: "true"}
		}
		return &Val{Ty: ty, Sort: "Bool", T: "false"}
	case constant.String:
		return &Val{Ty: ty, Sort: "Str", T: e.d.strLit(constant.StringVal(cv))}
	case constant.Int:
		return &Val{Ty: ty, Sort: "Int", T: bigLit(cv)}
	}
	return &Val{Ty: ty, Sort: "Float", T: "float_zero"}
}

func (e *FEnc) lookupName(env *Env, name string) (*Val, error) {
	if v, ok := env.bound[name]; ok {
		return v, nil
	}
	if v, ok := env.vars[name]; ok {
		return v, nil
	}
	switch name {
	case "true":
		return e.boolVal("true"), nil
	case "false":
		return e.boolVal("false"), nil
	case "nil":
		return &Val{Sort: "Nil", T: "nil"}, nil
	}
	if env.st != nil && e.fn != nil {
		// a variable of the enclosing function captured by this function literal: its value in the given state
		for _, fv := range e.fn.FreeVars {
			if fv.Name() == name {
				v := e.valOf(fv)
				if v.P != nil && v.P.Root == rLocal {
					return e.load(env.st, v.P), nil
				}
			}
		}
	}
	if env.blk != nil {
		if v, ok := e.lookupVar(env.st, name, env.blk, env.idx); ok {
			return v, nil
		}
	}
	if v, ok := e.constOf(env, name); ok {
		return v, nil
	}
	return nil, fmt.Errorf("unknown name %q", name)
}

func (e *FEnc) nilOf(sort string) string {
	switch sort {
	case "Ref":
		return "nil_ref"
	case "Iface":
		return "nil_iface"
	case "Fn":
		return "nil_fn"
	}
	return ""
}

func (e *FEnc) eqVals(a, b *Val) (string, error) {
	if a.Sort == "Nil" && b.Sort == "Nil" {
		return "true", nil
	}
	if b.Sort == "Nil" {
		a, b = b, a
	}
	if a.Sort == "Nil" {
		if b.Sort == "Slice" {
			return eq(fmt.Sprintf("(sl_base %s)", e.term(b)), "nil_ref"), nil
		}
		n := e.nilOf(b.Sort)
		if n == "" {
			return "", fmt.Errorf("nil compared with sort %s", b.Sort)
		}
		return eq(e.term(b), n), nil
	}
	if a.Sort != b.Sort {
		return "", fmt.Errorf("comparison of sorts %s and %s", a.Sort, b.Sort)
	}
	return eq(e.term(a), e.term(b)), nil
}

// deref auto-dereferences pointer values (for field selection).
func (e *FEnc) derefVal(st *State, v *Val) (*Val, bool) {
	if v.P != nil {
		return e.load(st, v.P), true
	}
	if v.Ty != nil {
		if _, ok := v.Ty.Underlying().(*types.Pointer); ok {
			return e.load(st, e.ptrOf(v)), true
		}
	}
	return nil, false
}

func (e *FEnc) eval(env *Env, x *Ex) (*Val, error) {
	switch x.Op {
	case "int":
		n, ok := new(bigInt).SetString(x.Name, 0)
		if !ok {
			return nil, fmt.Errorf("bad integer %q", x.Name)
		}
		return e.intVal(n.String()), nil
	case "str":
		return &Val{Ty: types.Typ[types.String], Sort: "Str", T: e.d.strLit(x.Name)}, nil
	case "id":
		return e.lookupName(env, x.Name)
	case "old":
		o := *env
		o.st = env.old
		return e.eval(&o, x.Args[0])
	case "sel":
		// qualified constant?
		if nm := exName(x); nm != "" {
			root := strings.SplitN(nm, ".", 2)[0]
			_, isBound := env.bound[root]
			_, isVar := env.vars[root]
			known := isBound || isVar
			if !known && env.blk != nil {
				_, known = e.lookupVar(env.st, root, env.blk, env.idx)
			}
			if !known {
				if v, ok := e.constOf(env, nm); ok {
					return v, nil
				}
			}
		}
		base, err := e.eval(env, x.Args[0])
		if err != nil {
			return nil, err
		}
		if base.Tup != nil {
			if i, err := strconv.Atoi(x.Name); err == nil && i < len(base.Tup) {
				return base.Tup[i], nil
			}
		}
		if d, ok := e.derefVal(env.st, base); ok {
			base = d
		}
		st := structOf(base.Ty)
		if st == nil {
			return nil, fmt.Errorf("field %s of non-struct %s (%v)", x.Name, x.Args[0], base.Ty)
		}
		return e.selectField(env, base, st, x.Name)
	case "deref":
		v, err := e.eval(env, x.Args[0])
		if err != nil {
			return nil, err
		}
		d, ok := e.derefVal(env.st, v)
		if !ok {
			return nil, fmt.Errorf("dereference of non-pointer %s", x.Args[0])
		}
		return d, nil
	case "not":
		t, err := e.evalBool(env, x.Args[0])
		if err != nil {
			return nil, err
		}
		return e.boolVal(not(t)), nil
	case "neg":
		v, err := e.eval(env, x.Args[0])
		if err != nil {
			return nil, err
		}
		return e.intVal(fmt.Sprintf("(- %s)", e.term(v))), nil
	case "forall", "exists":
		inner := *env
		inner.bound = map[string]*Val{}
		for k, v := range env.bound {
			inner.bound[k] = v
		}
		var decl []string
		var rng []string
		for _, bv := range x.BVars {
			s, ty, err := e.sortOfName(env, bv.Type)
			if err != nil {
				return nil, err
			}
			e.nfresh++
			nm := fmt.Sprintf("%s_q%d", bv.Name, e.nfresh)
			inner.bound[bv.Name] = &Val{Ty: ty, Sort: s, T: nm}
			decl = append(decl, fmt.Sprintf("(%s %s)", nm, s))
			if s == "Str" {
				rng = append(rng, fmt.Sprintf("(>= (len_s %s) 0)", nm))
			}
		}
		savedNF := e.noFacts
		e.noFacts = true // facts about terms containing bound variables must not escape the quantifier
		body, err := e.evalBool(&inner, x.Args[0])
		e.noFacts = savedNF
		if err != nil {
			return nil, err
		}
		if x.Op == "forall" {
			return e.boolVal(fmt.Sprintf("(forall (%s) %s)", strings.Join(decl, " "), implies(and(rng...), body))), nil
		}
		return e.boolVal(fmt.Sprintf("(exists (%s) %s)", strings.Join(decl, " "), and(append(rng, body)...))), nil
	case "index":
		base, err := e.eval(env, x.Args[0])
		if err != nil {
			return nil, err
		}
		iv, err := e.eval(env, x.Args[1])
		if err != nil {
			return nil, err
		}
		return e.indexVal(env, base, iv)
	case "slice":
		base, err := e.eval(env, x.Args[0])
		if err != nil {
			return nil, err
		}
		lo, hi := "0", ""
		if x.Args[1] != nil {
			v, err := e.eval(env, x.Args[1])
			if err != nil {
				return nil, err
			}
			lo = e.term(v)
		}
		if x.Args[2] != nil {
			v, err := e.eval(env, x.Args[2])
			if err != nil {
				return nil, err
			}
			hi = e.term(v)
		}
		switch base.Sort {
		case "Str":
			if hi == "" {
				hi = fmt.Sprintf("(len_s %s)", e.term(base))
			}
			return &Val{Ty: base.Ty, Sort: "Str", T: e.substr(e.term(base), lo, hi)}, nil
		case "Slice":
			s := e.term(base)
			if hi == "" {
				hi = fmt.Sprintf("(sl_len %s)", s)
			}
			return &Val{Ty: base.Ty, Sort: "Slice", T: fmt.Sprintf("(mk_slice (sl_base %s) (+ (sl_off %s) %s) (- %s %s) (- (sl_cap %s) %s))", s, s, lo, hi, lo, s, lo)}, nil
		}
		return nil, fmt.Errorf("slicing of sort %s", base.Sort)
	case "call":
		return e.evalCall(env, x)
	case "mcall":
		recv, err := e.eval(env, x.Args[0])
		if err != nil {
			return nil, err
		}
		var args []*Val
		for _, a := range x.Args[1:] {
			v, err := e.eval(env, a)
			if err != nil {
				return nil, err
			}
			args = append(args, v)
		}
		return e.evalMethod(env, recv, x.Name, args)
	}
	// binary
	if len(x.Args) != 2 {
		return nil, fmt.Errorf("unsupported expression %s", x)
	}
	switch x.Op {
	case "==>", "<==>", "&&", "||":
		a, err := e.evalBool(env, x.Args[0])
		if err != nil {
			return nil, err
		}
		b, err := e.evalBool(env, x.Args[1])
		if err != nil {
			return nil, err
		}
		switch x.Op {
		case "==>":
			return e.boolVal(implies(a, b)), nil
		case "<==>":
			return e.boolVal(eq(a, b)), nil
		case "&&":
			return e.boolVal(and(a, b)), nil
		default:
			return e.boolVal(or(a, b)), nil
		}
	}
	a, err := e.eval(env, x.Args[0])
	if err != nil {
		return nil, err
	}
	b, err := e.eval(env, x.Args[1])
	if err != nil {
		return nil, err
	}
	switch x.Op {
	case "==", "!=":
		t, err := e.eqVals(a, b)
		if err != nil {
			return nil, fmt.Errorf("%v in %s", err, x)
		}
		if x.Op == "!=" {
			t = not(t)
		}
		return e.boolVal(t), nil
	case "<", "<=", ">", ">=":
		if a.Sort == "Str" && b.Sort == "Str" {
			at, bt := e.term(a), e.term(b)
			e.strLessFacts(at, bt)
			switch x.Op {
			case "<":
				return e.boolVal(fmt.Sprintf("(str_less %s %s)", at, bt)), nil
			case ">":
				return e.boolVal(fmt.Sprintf("(str_less %s %s)", bt, at)), nil
			case "<=":
				return e.boolVal(fmt.Sprintf("(not (str_less %s %s))", bt, at)), nil
			default:
				return e.boolVal(fmt.Sprintf("(not (str_less %s %s))", at, bt)), nil
			}
		}
		if a.Sort != "Int" || b.Sort != "Int" {
			return nil, fmt.Errorf("ordering on sorts %s,%s in %s", a.Sort, b.Sort, x)
		}
		return e.boolVal(fmt.Sprintf("(%s %s %s)", x.Op, e.term(a), e.term(b))), nil
	case "+":
		if a.Sort == "Str" && b.Sort == "Str" {
			return &Val{Ty: a.Ty, Sort: "Str", T: e.concat(e.term(a), e.term(b))}, nil
		}
		fallthrough
	case "-", "*":
		if a.Sort != "Int" || b.Sort != "Int" {
			return nil, fmt.Errorf("arithmetic on sorts %s,%s in %s", a.Sort, b.Sort, x)
		}
		return e.intVal(fmt.Sprintf("(%s %s %s)", x.Op, e.term(a), e.term(b))), nil
	case "/":
		return e.intVal(goDiv(e.term(a), e.term(b))), nil
	case "%":
		return e.intVal(fmt.Sprintf("(- %s (* %s %s))", e.term(a), e.term(b), goDiv(e.term(a), e.term(b)))), nil
	}
	return nil, fmt.Errorf("unsupported operator %s", x.Op)
}

func (e *FEnc) selectField(env *Env, base *Val, st *types.Struct, name string) (*Val, error) {
	for i := 0; i < st.NumFields(); i++ {
		if st.Field(i).Name() == name {
			return e.fieldOf(base, i), nil
		}
	}
	// promoted fields through embedded structs
	for i := 0; i < st.NumFields(); i++ {
		f := st.Field(i)
		if !f.Embedded() {
			continue
		}
		inner := e.fieldOf(base, i)
		if d, ok := e.derefVal(env.st, inner); ok {
			inner = d
		}
		if ist := structOf(inner.Ty); ist != nil {
			if v, err := e.selectField(env, inner, ist, name); err == nil {
				return v, nil
			}
		}
	}
	return nil, fmt.Errorf("no field %s in %v", name, base.Ty)
}

func (e *FEnc) indexVal(env *Env, base, iv *Val) (*Val, error) {
	i := e.term(iv)
	switch base.Sort {
	case "Str":
		return e.intVal(fmt.Sprintf("(at_s %s %s)", e.term(base), i)), nil
	case "Slice":
		var elem types.Type
		if base.Ty != nil {
			if st, ok := base.Ty.Underlying().(*types.Slice); ok {
				elem = st.Elem()
			}
		}
		if elem == nil {
			return nil, fmt.Errorf("indexing slice of unknown element type")
		}
		s := e.term(base)
		p := &Ptr{Root: rElem, Base: fmt.Sprintf("(sl_base %s)", s), Idx: e.d.slIdx(s, i), Elem: elem}
		return e.load(env.st, p), nil
	}
	if base.Ty != nil {
		switch t := base.Ty.Underlying().(type) {
		case *types.Array:
			return e.project(base, []PathEl{{Field: -1, Index: i}}), nil
		case *types.Map:
			dn, ds, vn, vs := e.mapHeaps(t)
			_ = dn
			_ = ds
			hv := e.heapGet(env.st, vn, vs)
			return &Val{Ty: t.Elem(), Sort: e.sortOf(t.Elem()), T: fmt.Sprintf("(select (select %s %s) %s)", hv, e.term(base), i)}, nil
		}
	}
	return nil, fmt.Errorf("indexing of sort %s", base.Sort)
}

func (e *FEnc) evalCall(env *Env, x *Ex) (*Val, error) {
	var args []*Val
	evalArgs := func() error {
		for _, a := range x.Args {
			v, err := e.eval(env, a)
			if err != nil {
				return err
			}
			args = append(args, v)
		}
		return nil
	}
	switch x.Name {
	case "len", "cap":
		if err := evalArgs(); err != nil {
			return nil, err
		}
		if len(args) != 1 {
			return nil, fmt.Errorf("len/cap arity")
		}
		a := args[0]
		switch a.Sort {
		case "Str":
			return e.intVal(fmt.Sprintf("(len_s %s)", e.term(a))), nil
		case "Slice":
			if x.Name == "cap" {
				return e.intVal(fmt.Sprintf("(sl_cap %s)", e.term(a))), nil
			}
			return e.intVal(fmt.Sprintf("(sl_len %s)", e.term(a))), nil
		}
		if a.Ty != nil {
			switch t := a.Ty.Underlying().(type) {
			case *types.Array:
				return e.intVal(fmt.Sprint(t.Len())), nil
			case *types.Map:
				return e.intVal(e.mapCard(env.st, t, e.term(a))), nil
			}
		}
		return nil, fmt.Errorf("len of sort %s", a.Sort)
	case "ownedstr": // ownedstr($k): the k-th argument of this call is a string the function made itself (see owned.go)
		if len(x.Args) != 1 || x.Args[0].Op != "id" || !strings.HasPrefix(x.Args[0].Name, "$") || env.call == nil {
			return nil, fmt.Errorf("ownedstr($k) in an at-call clause")
		}
		k, err := strconv.Atoi(x.Args[0].Name[1:])
		ci, ok := env.call.(ssa.CallInstruction)
		if err != nil || !ok || k >= len(ci.Common().Args) {
			return nil, fmt.Errorf("ownedstr: no argument %s", x.Args[0].Name)
		}
		if ownedString(ci.Common().Args[k], 0) {
			return e.boolVal("true"), nil
		}
		return e.boolVal("false"), nil
	case "rangedone": // rangedone(s): the range loop over slice s (the one before this point) has visited every index
		if err := evalArgs(); err != nil {
			return nil, err
		}
		if len(args) != 1 || args[0].Sort != "Slice" {
			return nil, fmt.Errorf("rangedone(slice)")
		}
		want := e.term(args[0])
		for _, b := range e.fn.Blocks {
			for _, in := range b.Instrs {
				ph, ok := in.(*ssa.Phi)
				if !ok || ph.Comment != "rangeindex" {
					continue
				}
				for _, ed := range ph.Edges {
					inc, ok := ed.(*ssa.BinOp)
					if !ok || inc.Op != token.ADD || inc.X != ssa.Value(ph) || inc.Referrers() == nil {
						continue
					}
					for _, r := range *inc.Referrers() {
						cmp, ok := r.(*ssa.BinOp)
						if !ok || cmp.Op != token.LSS || cmp.X != ssa.Value(inc) {
							continue
						}
						call, ok := cmp.Y.(*ssa.Call)
						if !ok {
							continue
						}
						if bi, ok := call.Call.Value.(*ssa.Builtin); !ok || bi.Name() != "len" || len(call.Call.Args) != 1 {
							continue
						}
						sv := e.vals[call.Call.Args[0]]
						iv := e.vals[inc]
						if sv == nil || iv == nil || sv.T == "" || iv.T == "" || e.term(sv) != want {
							continue
						}
						return e.boolVal(fmt.Sprintf("(= %s (sl_len %s))", iv.T, want)), nil
					}
				}
			}
		}
		return nil, fmt.Errorf("rangedone: no range loop over that slice before this point")
	case "samearray": // samearray(a, b): the two slices are views of the same backing array
		if err := evalArgs(); err != nil {
			return nil, err
		}
		if len(args) != 2 || args[0].Sort != "Slice" || args[1].Sort != "Slice" {
			return nil, fmt.Errorf("samearray(slice, slice)")
		}
		return e.boolVal(fmt.Sprintf("(= (sl_base %s) (sl_base %s))", e.term(args[0]), e.term(args[1]))), nil
	case "in": // in(k, m)
		if err := evalArgs(); err != nil {
			return nil, err
		}
		if len(args) != 2 || args[1].Ty == nil {
			return nil, fmt.Errorf("in(k, m)")
		}
		mt, ok := args[1].Ty.Underlying().(*types.Map)
		if !ok {
			return nil, fmt.Errorf("in(k, m): m is not a map")
		}
		dn, ds, _, _ := e.mapHeaps(mt)
		d := e.heapGet(env.st, dn, ds)
		m := e.term(args[1])
		return e.boolVal(fmt.Sprintf("(and (not (= %s nil_ref)) (select (select %s %s) %s))", m, d, m, e.term(args[0]))), nil
	case "arg": // arg("callee", k): k-th argument of the most recent call to callee on this path
		if len(x.Args) != 2 || x.Args[0].Op != "str" || x.Args[1].Op != "int" || env.st == nil {
			return nil, fmt.Errorf("arg(\"callee name\", k)")
		}
		ak, _ := strconv.Atoi(x.Args[1].Name)
		for name, v := range env.st.lastRes {
			if strings.HasPrefix(name, "args:") && matchPat(x.Args[0].Name, name[5:]) && ak < len(v.Tup) {
				return v.Tup[ak], nil
			}
		}
		if v := e.noCallVal(x.Args[0].Name, ak, true); v != nil {
			return v, nil
		}
		return nil, fmt.Errorf("unknown name arg(%s): no such call on the way here", x.Args[0].Name)
	case "result": // result("callee", k): k-th result of the most recent call to callee on this path
		if len(x.Args) != 2 || x.Args[0].Op != "str" || x.Args[1].Op != "int" || env.st == nil {
			return nil, fmt.Errorf("result(\"callee name\", k)")
		}
		k, _ := strconv.Atoi(x.Args[1].Name)
		for name, v := range env.st.lastRes {
			if !strings.HasPrefix(name, "args:") && matchPat(x.Args[0].Name, name) {
				if v.Tup != nil {
					if k < len(v.Tup) {
						return v.Tup[k], nil
					}
				} else if k == 0 {
					return v, nil
				}
			}
		}
		if v := e.noCallVal(x.Args[0].Name, k, false); v != nil {
			return v, nil
		}
		return nil, fmt.Errorf("unknown name result(%s): no such call on the way here", x.Args[0].Name)
	case "captured": // captured(x): the variable x of the enclosing function that this function literal captured (never a local of the same name)
		if len(x.Args) != 1 || x.Args[0].Op != "id" || env.st == nil {
			return nil, fmt.Errorf("captured(name)")
		}
		for _, fv := range e.fn.FreeVars {
			if fv.Name() == x.Args[0].Name {
				v := e.valOf(fv)
				if _, ok := fv.Type().Underlying().(*types.Pointer); ok {
					return e.load(env.st, e.ptrOf(v)), nil
				}
				return v, nil
			}
		}
		return nil, fmt.Errorf("unknown name captured(%s): the function captures no such variable", x.Args[0].Name)
	case "ncalls": // ncalls("pkg.Type.Method"): the number of calls to that callee executed on the way to this point
		if len(x.Args) != 1 || x.Args[0].Op != "str" || env.st == nil {
			return nil, fmt.Errorf("ncalls(\"callee name\")")
		}
		t := "0"
		for _, k := range sortedKeys(env.st.ncalls) {
			if matchPat(x.Args[0].Name, k) {
				t = "(+ " + t + " " + env.st.ncalls[k] + ")"
			}
		}
		return e.intVal(t), nil
	case "called": // called("pkg.Type.Method"): a call to that callee was executed on the way to this point
		if len(x.Args) != 1 || x.Args[0].Op != "str" || env.st == nil {
			return nil, fmt.Errorf("called(\"callee name\")")
		}
		t := "false"
		for k, v := range env.st.called {
			if matchPat(x.Args[0].Name, k) {
				t = or(t, v)
			}
		}
		return e.boolVal(t), nil
	case "visited": // visited(m, k): key k has been visited by the (innermost) range loop over map m
		if err := evalArgs(); err != nil {
			return nil, err
		}
		if len(args) != 2 {
			return nil, fmt.Errorf("visited(m, k)")
		}
		mt := e.term(args[0])
		best := -1
		bestDepth := -1
		for rg, id := range e.rangeGhost {
			if e.term(e.valOf(rg.X)) != mt {
				continue
			}
			if env.blk != nil && !(rg.Block() == env.blk || rg.Block().Dominates(env.blk)) {
				continue
			}
			if d := e.domDepth[rg.Block()]; d > bestDepth {
				best, bestDepth = id, d
			}
		}
		if best < 0 || env.st == nil {
			return nil, fmt.Errorf("visited: no range loop over that map here")
		}
		cell, ok := env.st.cells[best]
		if !ok {
			return nil, fmt.Errorf("visited: iteration not started on this path")
		}
		return e.boolVal(fmt.Sprintf("(select %s %s)", cell.T, e.term(args[1]))), nil
	case "ite":
		if len(x.Args) != 3 {
			return nil, fmt.Errorf("ite arity")
		}
		c, err := e.evalBool(env, x.Args[0])
		if err != nil {
			return nil, err
		}
		a, err := e.eval(env, x.Args[1])
		if err != nil {
			return nil, err
		}
		b, err := e.eval(env, x.Args[2])
		if err != nil {
			return nil, err
		}
		return &Val{Ty: a.Ty, Sort: a.Sort, T: fmt.Sprintf("(ite %s %s %s)", c, e.term(a), e.term(b))}, nil
	case "min", "max":
		if err := evalArgs(); err != nil {
			return nil, err
		}
		op := "<="
		if x.Name == "max" {
			op = ">="
		}
		a, b := e.term(args[0]), e.term(args[1])
		return e.intVal(fmt.Sprintf("(ite (%s %s %s) %s %s)", op, a, b, a, b)), nil
	case "iface": // box a concrete value as an interface value
		if err := evalArgs(); err != nil {
			return nil, err
		}
		if len(args) != 1 || args[0].Ty == nil {
			return nil, fmt.Errorf("iface(x)")
		}
		box, _ := e.d.boxFns(args[0].Ty)
		return &Val{Sort: "Iface", T: fmt.Sprintf("(%s %s)", box, e.term(args[0]))}, nil
	case "as": // as(x, T): the value of interface x asserted to concrete type T
		if len(x.Args) != 2 {
			return nil, fmt.Errorf("as(x, T)")
		}
		v, err := e.eval(env, x.Args[0])
		if err != nil {
			return nil, err
		}
		_, ty, err := e.sortOfName(env, typeExName(x.Args[1]))
		if err != nil {
			return nil, err
		}
		if ty == nil || v.Sort != "Iface" {
			return nil, fmt.Errorf("as(x, T): x must be an interface value and T a Go type")
		}
		_, unbox := e.d.boxFns(ty)
		t := fmt.Sprintf("(%s %s)", unbox, e.term(v))
		return &Val{Ty: ty, Sort: e.sortOf(ty), T: t}, nil
	case "typeIs": // typeIs(x, T)
		if len(x.Args) != 2 {
			return nil, fmt.Errorf("typeIs(x, T)")
		}
		v, err := e.eval(env, x.Args[0])
		if err != nil {
			return nil, err
		}
		_, ty, err := e.sortOfName(env, typeExName(x.Args[1]))
		if err != nil {
			return nil, err
		}
		return e.boolVal(eq(fmt.Sprintf("(tagof %s)", e.term(v)), fmt.Sprint(e.d.tagOf(ty)))), nil
	}
	if err := evalArgs(); err != nil {
		return nil, err
	}
	// method call on a value: recv.Method(args) where the method carries a `pure` contract
	if i := strings.LastIndex(x.Name, "."); i > 0 {
		rx, perr := parseExpr(x.Name[:i])
		if perr == nil {
			root := strings.SplitN(x.Name, ".", 2)[0]
			_, isBound := env.bound[root]
			_, isVar := env.vars[root]
			known := isBound || isVar
			if !known && env.blk != nil {
				_, known = e.lookupVar(env.st, root, env.blk, env.idx)
			}
			if !known && env.pkg != nil {
				if _, isVar := env.pkg.Scope().Lookup(root).(*types.Var); isVar {
					known = true
				}
			}
			if known {
				recv, err := e.eval(env, rx)
				if err != nil {
					return nil, err
				}
				return e.evalMethod(env, recv, x.Name[i+1:], args)
			}
		}
	}
	// ghost function
	if g, ok := e.eng.cs.Ghosts[x.Name]; ok {
		if len(args) != len(g.Params) {
			return nil, fmt.Errorf("ghost %s: arity", x.Name)
		}
		e.usedGhost[x.Name] = true
		var ts []string
		genv := env
		if gp := e.eng.pkgByPath(g.PkgPath); gp != nil {
			ge := *env
			ge.pkg = gp
			genv = &ge
		}
		for i, a := range args {
			ps, _, err := e.sortOfName(genv, g.Params[i].Type)
			if err != nil {
				return nil, err
			}
			if a.Sort == "Nil" {
				ts = append(ts, e.nilOf(ps))
				continue
			}
			if a.Sort != ps {
				return nil, fmt.Errorf("ghost %s: argument %d has sort %s, want %s", x.Name, i, a.Sort, ps)
			}
			ts = append(ts, e.term(a))
		}
		rs, rty, err := e.sortOfName(genv, g.Ret)
		if err != nil {
			return nil, err
		}
		t := "g_" + x.Name
		if len(ts) > 0 {
			t = "(g_" + x.Name + " " + strings.Join(ts, " ") + ")"
		}
		return &Val{Ty: rty, Sort: rs, T: t}, nil
	}
	// pure Go function with a contract (e.g. s3err.GetAPIError, strings.Split)
	if fn := e.eng.lookupPure(x.Name, env.pkg); fn != nil {
		if e.eng.isRepoFn(fn) {
			for i := range args {
				args[i] = e.pureArg(env.st, args[i])
			}
		}
		res := fn.Signature.Results()
		pkey := fn.String()
		if fsig := fn.Signature; fsig.Variadic() && len(args) >= fsig.Params().Len()-1 {
			pkey += fmt.Sprintf("_v%d", len(args)-(fsig.Params().Len()-1))
		}
		mk := func(i int) *Val {
			ty := res.At(i).Type()
			sym, rs := e.pureSym(pkey, args, ty, i)
			var ts []string
			for _, a := range args {
				ts = append(ts, e.term(a))
			}
			t := sym
			if len(ts) > 0 {
				t = "(" + sym + " " + strings.Join(ts, " ") + ")"
			}
			return &Val{Ty: ty, Sort: rs, T: t}
		}
		var rs []*Val
		for i := 0; i < res.Len(); i++ {
			rs = append(rs, mk(i))
		}
		e.assumePureEnsures(env, fn, args, rs)
		if res.Len() == 1 {
			return rs[0], nil
		}
		return &Val{Ty: res, Sort: "Tuple", Tup: rs}, nil
	}
	return nil, fmt.Errorf("unknown function %q", x.Name)
}

func (e *FEnc) cardFn(mt *types.Map) string {
	ks := e.sortOf(mt.Key())
	nm := "card_" + e.d.typeKey(mt.Key())
	e.d.add("fn:"+nm, fmt.Sprintf("(declare-fun %s ((Array %s Bool)) Int)", nm, ks))
	return nm
}

func (e *FEnc) mapCard(st *State, mt *types.Map, m string) string {
	dn, ds, _, _ := e.mapHeaps(mt)
	d := e.heapGet(st, dn, ds)
	nm := e.cardFn(mt)
	t := fmt.Sprintf("(%s (select %s %s))", nm, d, m)
	e.fact(fmt.Sprintf("(>= %s 0)", t))
	return t
}

// pureSym declares the uninterpreted function symbol standing for the i-th result of a pure Go function.
func (e *FEnc) pureSym(key string, args []*Val, resTy types.Type, i int) (string, string) {
	sym := "fn_" + mangle(key) + fmt.Sprintf("_%d", i)
	var ps []string
	for _, a := range args {
		ps = append(ps, a.Sort)
	}
	rs := e.sortOf(resTy)
	e.d.add("fn:"+sym, fmt.Sprintf("(declare-fun %s (%s) %s)", sym, strings.Join(ps, " "), rs))
	if i == 0 && len(args) == 1 && args[0].Sort == "Str" && rs == "Str" {
		// ground evaluation: the value of these library functions on every string literal of the query is stated as a
		// fact (true of the real function), so that a clause can speak about a name "in any casing"
		switch key {
		case "strings.ToLower":
			e.d.ground[sym] = strings.ToLower
		case "strings.ToUpper":
			e.d.ground[sym] = strings.ToUpper
		}
	}
	return sym, rs
}

// evalMethod applies a pure method (static or interface) to a receiver value inside a contract expression.
func (e *FEnc) evalMethod(env *Env, recv *Val, name string, args []*Val) (*Val, error) {
	if recv.Ty == nil {
		return nil, fmt.Errorf("method %s on value of unknown type", name)
	}
	obj, _, _ := types.LookupFieldOrMethod(recv.Ty, true, env.pkg, name)
	m, ok := obj.(*types.Func)
	if !ok {
		// exported methods of other packages
		obj, _, _ = types.LookupFieldOrMethod(recv.Ty, true, nil, name)
		m, ok = obj.(*types.Func)
		if !ok {
			return nil, fmt.Errorf("no method %s on %v", name, recv.Ty)
		}
	}
	sig := m.Type().(*types.Signature)
	var key string
	var fc *FuncContract
	if _, isIface := recv.Ty.Underlying().(*types.Interface); isIface {
		if n := namedOf(recv.Ty); n != nil && n.Obj().Pkg() != nil {
			key = n.Obj().Pkg().Path() + "." + n.Obj().Name() + "." + name
			fc = e.eng.contractByKey("iface:" + key)
		}
	} else {
		fn := e.eng.prog.FuncValue(m)
		if fn == nil {
			return nil, fmt.Errorf("method %s has no SSA function", name)
		}
		key = fn.String()
		fc = e.eng.contractOf(fn)
	}
	if fc == nil || !fc.Pure {
		return nil, fmt.Errorf("method %s is not declared pure", name)
	}
	if fnv := e.eng.prog.FuncValue(m); fnv != nil && e.eng.isRepoFn(fnv) {
		recv = e.pureArg(env.st, recv)
		for i := range args {
			args[i] = e.pureArg(env.st, args[i])
		}
	}
	all := append([]*Val{recv}, args...)
	// variadic functions are written with their variadic arguments spelled out (possibly none)
	if sig.Variadic() {
		if len(args) < sig.Params().Len()-1 {
			return nil, fmt.Errorf("method %s: wrong number of arguments", name)
		}
		key += fmt.Sprintf("_v%d", len(args)-(sig.Params().Len()-1))
	} else if len(all) != sig.Params().Len()+1 {
		return nil, fmt.Errorf("method %s: wrong number of arguments", name)
	}
	for i := 1; i < len(all); i++ {
		pi := i - 1
		var pt types.Type
		if pi < sig.Params().Len()-1 || !sig.Variadic() {
			pt = sig.Params().At(pi).Type()
		} else {
			pt = sig.Params().At(sig.Params().Len() - 1).Type().(*types.Slice).Elem()
		}
		if e.sortOf(pt) == "Iface" && all[i].Sort != "Iface" && all[i].Ty != nil {
			box, _ := e.d.boxFns(all[i].Ty)
			all[i] = &Val{Ty: pt, Sort: "Iface", T: fmt.Sprintf("(%s %s)", box, e.term(all[i]))}
		}
	}
	res := sig.Results()
	mk := func(i int) *Val {
		ty := res.At(i).Type()
		sym, rs := e.pureSym(key, all, ty, i)
		var ts []string
		for _, a := range all {
			ts = append(ts, e.term(a))
		}
		return &Val{Ty: ty, Sort: rs, T: "(" + sym + " " + strings.Join(ts, " ") + ")"}
	}
	if res.Len() == 1 {
		return mk(0), nil
	}
	tup := &Val{Ty: res, Sort: "Tuple"}
	for i := 0; i < res.Len(); i++ {
		tup.Tup = append(tup.Tup, mk(i))
	}
	return tup, nil
}

// typeExName renders a type written as an expression (*pkg.T, pkg.T, T).
func typeExName(x *Ex) string {
	if x.Op == "deref" {
		return "*" + typeExName(x.Args[0])
	}
	return exName(x)
}

// assumePureEnsures: a contract expression names the result of a pure function; what the function's
// contract ensures about that result is made available as facts (once per application).
func (e *FEnc) assumePureEnsures(env *Env, fn *ssa.Function, args []*Val, rs []*Val) {
	if e.noFacts || env.st == nil || len(rs) == 0 {
		return
	}
	fc := e.eng.contractOf(fn)
	if fc == nil {
		return
	}
	key := fn.String() + "|" + e.term(rs[0])
	if e.pureAssumed == nil {
		e.pureAssumed = map[string]bool{}
	}
	if e.pureAssumed[key] || len(e.pureAssumed) > 2000 {
		return
	}
	e.pureAssumed[key] = true
	cenv := &Env{fe: e, st: env.st, old: env.st, vars: map[string]*Val{}, bound: map[string]*Val{}}
	if fn.Pkg != nil {
		cenv.pkg = fn.Pkg.Pkg
	} else if fn.Object() != nil {
		cenv.pkg = fn.Object().Pkg()
	}
	sig := fn.Signature
	var names []string
	if len(fn.Params) == len(args) {
		for _, p := range fn.Params {
			names = append(names, p.Name())
		}
	} else {
		if sig.Recv() != nil {
			names = append(names, sig.Recv().Name())
		}
		for i := 0; i < sig.Params().Len(); i++ {
			names = append(names, sig.Params().At(i).Name())
		}
	}
	for i, n := range names {
		if i < len(args) && n != "" && n != "_" {
			cenv.vars[n] = args[i]
		}
	}
	e.bindResults(cenv, sig, rs)
	for _, c := range fc.Clauses {
		if c.Kind != "ensures" {
			continue
		}
		g, err := e.evalBool(cenv, c.Expr)
		if err != nil {
			continue
		}
		e.fact(g)
	}
}

// noCallVal: arg/result of a callee that the function does call, asked for at a point no such call has been executed
// on the way to (e.g. a loop invariant at loop entry, written `called(c) ==> ... arg(c, k) ...`). The value is arbitrary
// (one unconstrained value per callee and position); a callee the function never calls stays an evaluation error.
func (e *FEnc) noCallVal(pat string, k int, isArg bool) *Val {
	key := fmt.Sprintf("%s|%d|%v", pat, k, isArg)
	if v, ok := e.noCall[key]; ok {
		return v
	}
	for _, b := range e.fn.Blocks {
		for _, in := range b.Instrs {
			ci, ok := in.(ssa.CallInstruction)
			if !ok || !matchPat(pat, calleeName(ci.Common())) {
				continue
			}
			var ty types.Type
			if isArg {
				if k < len(ci.Common().Args) {
					ty = ci.Common().Args[k].Type()
				}
			} else {
				res := ci.Common().Signature().Results()
				if k < res.Len() {
					ty = res.At(k).Type()
				}
			}
			if ty == nil {
				return nil
			}
			v := e.newVal(ty, "nocall")
			if e.noCall == nil {
				e.noCall = map[string]*Val{}
			}
			e.noCall[key] = v
			return v
		}
	}
	return nil
}
