package main

// Calls: builtins, contracts at call sites, at-call clauses, havoc.

import (
	"os"
	"fmt"
	"go/types"
	"math/big"
	"path"
	"strings"

	"golang.org/x/tools/go/ssa"
)

type bigInt = big.Int

func pkgNameOf(p *types.Package) string {
	if p == nil {
		return ""
	}
	return p.Name()
}

func namedOf(t types.Type) *types.Named {
	t = types.Unalias(t)
	if p, ok := t.(*types.Pointer); ok {
		t = types.Unalias(p.Elem())
	}
	n, _ := t.(*types.Named)
	return n
}

// calleeName: canonical short name used by at-call patterns.
func calleeName(cc *ssa.CallCommon) string {
	if cc.IsInvoke() {
		if n := namedOf(cc.Value.Type()); n != nil {
			return pkgNameOf(n.Obj().Pkg()) + "." + n.Obj().Name() + "." + cc.Method.Name()
		}
		return "iface." + cc.Method.Name()
	}
	if b, ok := cc.Value.(*ssa.Builtin); ok {
		return "builtin." + b.Name()
	}
	if fn := cc.StaticCallee(); fn != nil {
		return shortCallee(fn)
	}
	return "dynamic"
}

func shortCallee(fn *ssa.Function) string {
	if fn.Parent() != nil {
		return shortCallee(fn.Parent()) + "$" + strings.TrimPrefix(fn.Name(), fn.Parent().Name()+"$")
	}
	sig := fn.Signature
	pn := ""
	if fn.Pkg != nil {
		pn = fn.Pkg.Pkg.Name()
	} else if fn.Object() != nil {
		pn = pkgNameOf(fn.Object().Pkg())
	}
	if sig.Recv() != nil {
		if n := namedOf(sig.Recv().Type()); n != nil {
			return pkgNameOf(n.Obj().Pkg()) + "." + n.Obj().Name() + "." + fn.Name()
		}
	}
	return pn + "." + fn.Name()
}

func matchPat(pat, name string) bool {
	if pat == name {
		return true
	}
	ok, _ := path.Match(pat, name)
	return ok
}

func (e *FEnc) atCallClauses(name string) []*Clause {
	var out []*Clause
	if e.fc != nil {
		for _, c := range e.fc.Clauses {
			if c.Kind == "atcall" && matchPat(c.Pat, name) {
				out = append(out, c)
			}
		}
	}
	// the call-site clauses of a function also govern the function literals written inside it
	for par := e.fn.Parent(); par != nil; par = par.Parent() {
		if pfc := e.eng.contractOf(par); pfc != nil {
			for _, c := range pfc.Clauses {
				if c.Kind == "atcall" && matchPat(c.Pat, name) {
					out = append(out, c)
				}
			}
		}
	}
	return out
}

func (e *FEnc) atCall(st *State, in ssa.Instruction, name string, args []*Val, recv *Val) {
	for _, c := range e.atCallClauses(name) {
		env := e.fnEnvAt(st, e.entry, in.Block(), e.curIdx)
		env.lenient = true
		env.call = in
		for i, a := range args {
			env.vars[fmt.Sprintf("$%d", i)] = a
		}
		if recv != nil {
			env.vars["$recv"] = recv
		}
		reach := st.reach
		if c.When != nil {
			w, err := e.evalBool(env, c.When)
			if err != nil {
				e.unsupported = append(e.unsupported, fmt.Sprintf("at-call %s when %q: %v", c.Pat, c.Src, err))
				continue
			}
			reach = and(reach, w)
		}
		g, err := e.evalBool(env, c.Expr)
		if err != nil {
			if c.When == nil && !(e.fn.Parent() != nil && !e.ownClause(c)) {
				e.unsupportedOnce(fmt.Sprintf("at-call %s %q: %v", c.Pat, c.Src, err))
				continue
			}
			// the clause cannot be evaluated at this call site: it must be one the clause does not apply to
			e.note(fmt.Sprintf("at-call %s [%s] cannot be evaluated at %s (%v): treated as false there, so its 'when' must not hold", c.Pat, c.Label, e.posOf(in.Pos()), err))
			g = "false"
		}
		e.obligePart("atcall", clauseKey(c, "atcall("+c.Pat+")"), c.Props, in.Pos(), "at "+name+": "+c.Src, reach, g)
		e.atCallHits[c]++
	}
}

func (e *FEnc) atCallBuiltin(st *State, in ssa.Instruction, name string, args []*Val) {
	e.atCall(st, in, name, args, nil)
}

func (e *FEnc) call(st *State, in ssa.Instruction, cc *ssa.CallCommon, res ssa.Value) {
	define := func(v *Val) {
		if res != nil {
			e.define(res, v)
		}
	}
	var resTy types.Type
	if res != nil {
		resTy = res.Type()
	}
	if b, ok := cc.Value.(*ssa.Builtin); ok {
		e.builtin(st, in, b, cc, res)
		return
	}
	name := calleeName(cc)
	var args []*Val
	var recv *Val
	if cc.IsInvoke() {
		recv = e.valOf(cc.Value)
		e.safetyOb(st, "nil", in, "invoke "+name, not(eq(e.term(recv), "nil_iface")))
	}
	for _, a := range cc.Args {
		args = append(args, e.valOf(a))
	}
	if fcPre := e.calleeContract(cc); fcPre != nil && fcPre.Pure && len(e.atCallClauses(name)) == 0 {
		goto afterPublish // pure callees neither read nor write caller memory through pointers
	}
	// locals that the callee (or a contract expression about this call) can reach through pointers:
	// those reachable from the arguments plus those whose address was stored in the heap
	{
		var as []*Val
		for _, a := range args {
			if a != nil {
				as = append(as, a)
			}
		}
		pub := e.reachable(st, as)
		for id := range st.leaked {
			pub[id] = true
		}
		// every local whose address is ever used as a value keeps an up-to-date copy in the heap, so that
		// the heap at two call sites differs only where the program changed something
		for id := range st.cells {
			if a := e.allocs[id]; a.Instr != nil && e.exposed[a.Instr] {
				pub[id] = true
			}
		}
		if len(pub) > 0 {
			e.publish(st, pub)
		}
	}
afterPublish:
	e.atCall(st, in, name, args, recv)
	if st.called == nil {
		st.called = map[string]string{}
	}
	st.called[name] = "true"
	st.countCall(name)
	if len(args) > 0 {
		// ghost: the arguments of the most recent call to this callee (as a tuple), read by arg("name", k)
		if st.lastRes == nil {
			st.lastRes = map[string]*Val{}
		}
		st.lastRes["args:"+name] = &Val{Sort: "Tuple", Tup: args}
	}

	fn := cc.StaticCallee()
	var fc *FuncContract
	var sig *types.Signature
	var pnames []string
	var pvals []*Val
	switch {
	case cc.IsInvoke():
		sig = cc.Method.Type().(*types.Signature)
		if n := namedOf(cc.Value.Type()); n != nil && n.Obj().Pkg() != nil {
			fc = e.eng.contractByKey("iface:" + n.Obj().Pkg().Path() + "." + n.Obj().Name() + "." + cc.Method.Name())
		} else if n != nil {
			fc = e.eng.contractByKey("iface:" + n.Obj().Name() + "." + cc.Method.Name())
		}
		pnames = append(pnames, "recv")
		pvals = append(pvals, recv)
		for i := 0; i < sig.Params().Len(); i++ {
			pnames = append(pnames, sig.Params().At(i).Name())
		}
		pvals = append(pvals, args...)
	case fn != nil:
		sig = fn.Signature
		fc = e.eng.contractOf(fn)
		if len(fn.Params) == len(args) {
			for _, p := range fn.Params {
				pnames = append(pnames, p.Name())
			}
		} else {
			if sig.Recv() != nil {
				pnames = append(pnames, sig.Recv().Name())
			}
			for i := 0; i < sig.Params().Len(); i++ {
				pnames = append(pnames, sig.Params().At(i).Name())
			}
		}
		pvals = args
		if sig.Recv() != nil && len(args) > 0 {
			if _, isPtr := sig.Recv().Type().Underlying().(*types.Pointer); isPtr && args[0].P == nil {
				e.safetyOb(st, "nil", in, "recv "+name, not(eq(e.term(args[0]), "nil_ref")))
			}
		}
	default:
		if fv := e.valOf(cc.Value); fv.Sort == "Fn" {
			e.safetyOb(st, "nil", in, "call "+cc.Value.Name(), not(eq(e.term(fv), "nil_fn")))
		}
		// a value of a named function type may carry a contract ("iface <pkg>.<Type>.call")
		if fc = e.funcTypeContract(cc); fc != nil {
			sig = cc.Signature()
			for i := 0; i < sig.Params().Len(); i++ {
				pnames = append(pnames, sig.Params().At(i).Name())
			}
			pvals = args
		}
	}
	// variadic with fewer names than values cannot happen in SSA (packed into a slice)

	// inline small contract-less repo functions
	if fc == nil && fn != nil && e.eng.inlinable(fn) && e.depth < 2 {
		if v, ok := e.inline(st, in, fn, args, resTy); ok {
			define(v)
			return
		}
	}

	pre := st.clone()
	mkEnv := func(s *State) *Env {
		env := &Env{fe: e, st: s, old: pre, vars: map[string]*Val{}, bound: map[string]*Val{}}
		if fn != nil && fn.Pkg != nil {
			env.pkg = fn.Pkg.Pkg
		} else if fn != nil && fn.Object() != nil {
			env.pkg = fn.Object().Pkg()
		} else if cc.IsInvoke() {
			if n := namedOf(cc.Value.Type()); n != nil {
				env.pkg = n.Obj().Pkg()
			}
		}
		for i, n := range pnames {
			if i < len(pvals) && n != "" && n != "_" {
				env.vars[n] = pvals[i]
			}
		}
		for i, v := range pvals {
			env.vars[fmt.Sprintf("arg%d", i)] = v
			env.vars[fmt.Sprintf("in%d", i)] = v // same positional alias as inside the function (fnEnv)
		}
		return env
	}
	if fc != nil {
		e.calleesUsed[fc.Key] = fc
		k := "pre:" + name
		e.safetyCount[k]++
		site := e.safetyCount[k]
		for _, c := range fc.Clauses {
			if c.Kind != "requires" {
				continue
			}
			g, err := e.evalBool(mkEnv(st), c.Expr)
			if err != nil {
				e.unsupported = append(e.unsupported, fmt.Sprintf("pre of %s %q: %v", name, c.Src, err))
				continue
			}
			key := fmt.Sprintf("%s.%s@%d", name, clauseKey(c, "requires"), site)
			e.oblige("pre", key, c.Props, in.Pos(), "precondition of "+name+": "+c.Src, st.reach, g)
		}
	}
	// effects
	pure := fc != nil && fc.Pure
	var result *Val
	if pure && sig != nil && sig.Results().Len() > 0 {
		// a pure repository function is a function of the CONTENT of the structures it is handed by
		// pointer (not of the pointer): pass the loaded value
		if fn != nil && e.eng.isRepoFn(fn) {
			np := make([]*Val, len(pvals))
			for i, a := range pvals {
				np[i] = e.pureArg(st, a)
			}
			pvals = np
		}
		pkey := calleeKey(cc, fn)
		if suffix, ex, ok := e.expandVariadic(st, sig, pvals); ok {
			pkey += suffix
			pvals = ex
		}
		var ts []string
		for _, a := range pvals {
			ts = append(ts, e.term(a))
		}
		mk := func(i int, ty types.Type) *Val {
			sym, rs := e.pureSym(pkey, pvals, ty, i)
			t := sym
			if len(ts) > 0 {
				t = "(" + sym + " " + strings.Join(ts, " ") + ")"
			}
			t = e.defTerm("pr", t, rs)
			e.typeFacts(t, ty, 0)
			return &Val{Ty: ty, Sort: rs, T: t}
		}
		if sig.Results().Len() == 1 {
			result = mk(0, sig.Results().At(0).Type())
		} else {
			result = &Val{Ty: sig.Results(), Sort: "Tuple"}
			for i := 0; i < sig.Results().Len(); i++ {
				result.Tup = append(result.Tup, mk(i, sig.Results().At(i).Type()))
			}
		}
	} else {
		// effects of an unknown body: the heap, every local whose address was stored in the heap, and
		// (unless the contract says the callee does not write through its arguments) every local
		// reachable from the arguments. Callees are assumed not to retain pointers to caller locals.
		if !(fc != nil && fc.NoHavoc) {
			var as []*Val
			for _, a := range pvals {
				if a != nil {
					as = append(as, a)
				}
			}
			reach := e.reachable(st, as)
			hasArgs := false
			var restMod []string
			if fc != nil {
				for _, m := range fc.Modifies {
					if m == "args" {
						hasArgs = true
					} else {
						restMod = append(restMod, m)
					}
				}
			}
			if hasArgs {
				// "modifies args": the callee writes only the structures its pointer arguments point to. Heap
				// structures handed by reference get fresh field values at that reference; caller locals reachable
				// from the arguments are forgotten below; nothing else changes.
				for i, a := range pvals {
					if a == nil || a.T == "" || a.Sort != "Ref" || i >= len(cc.Args)+1 {
						continue
					}
					pt, ok := a.Ty.Underlying().(*types.Pointer)
					if !ok {
						continue
					}
					if sty := structOf(pt.Elem()); sty != nil {
						for fi := 0; fi < sty.NumFields(); fi++ {
							hn, hs := e.d.heapField(pt.Elem(), fi)
							h := e.heapGet(st, hn, hs)
							nv := e.newVal(sty.Field(fi).Type(), "argf")
							e.heapSet(st, hn, hs, fmt.Sprintf("(store %s %s %s)", h, a.T, e.term(nv)))
						}
					}
				}
				e.havocSet(st, reach)
				e.publishExposed(st)
				if len(restMod) > 0 {
					// "modifies args maps": besides the structures the arguments point to, the listed heap classes
					e.havocHeapOnly(st, restMod)
				}
			} else if fc != nil && len(fc.Modifies) > 0 {
				e.havocHeapOnly(st, fc.Modifies)
			} else {
				if os.Getenv("GOVC_DEBUG") != "" {
					fmt.Fprintln(os.Stderr, "havoc", e.fn.Name(), name, e.posOf(in.Pos()))
				}
				priv := e.privateArrays(in)
				oldEpoch, oldHeap := st.epoch, st.heap
				e.havocHeap(st)
				for _, m := range priv {
					mv := e.vals[m]
					if mv == nil || mv.T == "" {
						continue
					}
					hn, _ := e.d.heapElem(m.Type().Underlying().(*types.Slice).Elem())
					e.epochRefs[st.epoch] = append(e.epochRefs[st.epoch], keepRef{name: hn, ref: fmt.Sprintf("(sl_base %s)", mv.T), pred: oldEpoch, heap: oldHeap})
				}
			}
			if fc != nil && len(fc.Modifies) > 0 && onlyElemsOrMaps(fc.Modifies) {
				// the callee writes only slice elements / map entries: scalar and struct locals whose address
				// escaped keep their value; local arrays (element storage) do not
				e.havocLeakedArrays(st)
			} else if fc != nil && len(fc.Modifies) == 1 && fc.Modifies[0] == "args" {
				// only what the arguments reach (handled above)
			} else {
				e.havocLeaked(st)
			}
			if !(fc != nil && fc.PreservesArgs) {
				e.havocSet(st, reach)
			}
			e.publishExposed(st)
		}
		if resTy != nil {
			result = e.newVal(resTy, "r_"+mangle(lastPart(name)))
		}
	}
	if result != nil {
		define(result)
		if st.lastRes == nil {
			st.lastRes = map[string]*Val{}
		}
		if result.T != "" || len(result.Tup) > 0 || result.P != nil || len(result.Fields) > 0 {
			st.lastRes[name] = result
		}
	}
	if fc != nil && sig != nil {
		var rs []*Val
		if result != nil {
			if result.Tup != nil {
				rs = result.Tup
			} else {
				rs = []*Val{result}
			}
		}
		for _, c := range fc.Clauses {
			if c.Kind != "ensures" {
				continue
			}
			env := mkEnv(st)
			e.bindResults(env, sig, rs)
			g, err := e.evalBool(env, c.Expr)
			if err != nil {
				e.unsupported = append(e.unsupported, fmt.Sprintf("post of %s %q: %v", name, c.Src, err))
				continue
			}
			e.fact(implies(st.reach, g))
		}
	}
	e.afterCall(st, in, name)
}

// afterCall implements the proof rule for a higher-order callee that runs function literals of this function
// (e.g. fs.WalkDir with a callback):
//
//	after-call PAT invariant E
//
// lets E (over variables of this function captured by its literals) be assumed right after the call, because
//   - E holds at the call: this function has "at-call PAT requires E" (an obligation),
//   - every function literal of this function assumes E on entry and is obliged to re-establish it on every
//     return ("requires E" and "ensures E" in its contract),
//   - the captured variables are private to the function and its literals, so the callee can change them only by
//     running the literals.
//
// The rule is applied only when these clauses are present with the same expression text; otherwise the clause is
// reported as not applicable (undecided), never silently assumed.
func (e *FEnc) afterCall(st *State, in ssa.Instruction, name string) {
	if os.Getenv("GOVC_DEBUG") != "" && e.fc != nil {
		fmt.Fprintln(os.Stderr, "afterCall", e.fn.Name(), name, len(e.fc.Clauses))
	}
	if e.fc == nil {
		return
	}
	for _, c := range e.fc.Clauses {
		if c.Kind != "aftercall" || !matchPat(c.Pat, name) {
			continue
		}
		want := c.Expr.String()
		okPre := false
		for _, d := range e.fc.Clauses {
			if d.Kind == "atcall" && d.Pat == c.Pat && d.When == nil && d.Expr.String() == want {
				okPre = true
			}
		}
		why := ""
		if !okPre {
			why = "no matching 'at-call " + c.Pat + " requires' clause"
		}
		var lits []*ssa.Function
		var collect func(f *ssa.Function)
		collect = func(f *ssa.Function) {
			for _, a := range f.AnonFuncs {
				lits = append(lits, a)
				collect(a)
			}
		}
		collect(e.fn)
		for _, lf := range lits {
			lfc := e.eng.contractOf(lf)
			req, ens := false, false
			if lfc != nil {
				for _, d := range lfc.Clauses {
					if d.Kind == "requires" && d.Expr.String() == want {
						req = true
					}
					if d.Kind == "ensures" && d.Expr.String() == want {
						ens = true
					}
				}
			}
			if !req || !ens {
				why = "function literal " + lf.Name() + " lacks 'requires'/'ensures' of the same invariant"
			}
		}
		if why != "" {
			e.unsupportedOnce(fmt.Sprintf("after-call %s invariant %q: rule not applicable: %s", c.Pat, c.Src, why))
			continue
		}
		env := e.fnEnvAt(st, e.entry, in.Block(), e.curIdx)
		env.lenient = true
		g, err := e.evalBool(env, c.Expr)
		if err != nil {
			e.unsupportedOnce(fmt.Sprintf("after-call %s invariant %q: %v", c.Pat, c.Src, err))
			continue
		}
		e.fact(implies(st.reach, g))
		e.note("after-call rule applied at " + name + ": " + c.Src)
	}
}

func lastPart(s string) string {
	if i := strings.LastIndex(s, "."); i >= 0 {
		return s[i+1:]
	}
	return s
}

func calleeKey(cc *ssa.CallCommon, fn *ssa.Function) string {
	if fn != nil {
		return fn.String()
	}
	if cc.IsInvoke() {
		if n := namedOf(cc.Value.Type()); n != nil && n.Obj().Pkg() != nil {
			return n.Obj().Pkg().Path() + "." + n.Obj().Name() + "." + cc.Method.Name()
		}
	}
	return calleeName(cc)
}

// leakVal marks every local object pointed to from inside v as permanently escaped.
func (e *FEnc) leakVal(v *Val) {
	if v.P != nil && v.P.Root == rLocal {
		e.leak(v.P.Alloc)
	}
	for _, f := range v.Fields {
		e.leakVal(f)
	}
	for _, f := range v.Tup {
		e.leakVal(f)
	}
	if v.Box != nil {
		e.leakVal(v.Box)
	}
}

func (e *FEnc) builtin(st *State, in ssa.Instruction, b *ssa.Builtin, cc *ssa.CallCommon, res ssa.Value) {
	define := func(v *Val) {
		if res != nil {
			e.define(res, v)
		}
	}
	var args []*Val
	for _, a := range cc.Args {
		args = append(args, e.valOf(a))
	}
	e.atCall(st, in, "builtin."+b.Name(), args, nil)
	if b.Name() == "append" && len(cc.Args) == 2 {
		// appends can also be addressed by element type: at-call builtin.append[pkg.Type] ($0 the list, $1 the elements added)
		if sl, ok := cc.Args[0].Type().Underlying().(*types.Slice); ok {
			e.atCall(st, in, "builtin.append["+types.TypeString(sl.Elem(), func(p *types.Package) string { return p.Name() })+"]", args, nil)
		}
	}
	switch b.Name() {
	case "len", "cap":
		a := args[0]
		at := cc.Args[0].Type().Underlying()
		switch t := at.(type) {
		case *types.Basic:
			define(e.intVal(fmt.Sprintf("(len_s %s)", e.term(a))))
		case *types.Slice:
			f := "sl_len"
			if b.Name() == "cap" {
				f = "sl_cap"
			}
			define(e.intVal(fmt.Sprintf("(%s %s)", f, e.term(a))))
		case *types.Array:
			define(e.intVal(fmt.Sprint(t.Len())))
		case *types.Pointer:
			if arr, ok := t.Elem().Underlying().(*types.Array); ok {
				define(e.intVal(fmt.Sprint(arr.Len())))
			} else {
				define(e.newVal(res.Type(), "len"))
			}
		case *types.Map:
			define(e.intVal(e.defTerm("card", e.mapCard(st, t, e.term(a)), "Int")))
		default:
			r := e.newVal(res.Type(), "len")
			e.fact(fmt.Sprintf("(>= %s 0)", r.T))
			define(r)
		}
	case "append":
		e.appendB(st, in, cc, args, res)
	case "copy":
		e.copyB(st, in, cc, args, res)
	case "delete":
		mt := cc.Args[0].Type().Underlying().(*types.Map)
		m := e.term(args[0])
		k := e.term(args[1])
		dn, ds, _, _ := e.mapHeaps(mt)
		d := e.heapGet(st, dn, ds)
		e.heapSet(st, dn, ds, fmt.Sprintf("(store %s %s (store (select %s %s) %s false))", d, m, d, m, k))
	case "min", "max":
		op := "<="
		if b.Name() == "max" {
			op = ">="
		}
		if res != nil && isInteger(res.Type()) && len(args) == 2 {
			x, y := e.term(args[0]), e.term(args[1])
			define(e.termVal(fmt.Sprintf("(ite (%s %s %s) %s %s)", op, x, y, x, y), res.Type()))
		} else if res != nil {
			define(e.newVal(res.Type(), "mm"))
		}
	case "ssa:wrapnilchk":
		define(args[0])
	case "print", "println", "close", "clear":
	case "recover":
		define(e.newVal(res.Type(), "rec"))
	default:
		if res != nil {
			define(e.newVal(res.Type(), "bi"))
		}
	}
}

func (e *FEnc) appendB(st *State, in ssa.Instruction, cc *ssa.CallCommon, args []*Val, res ssa.Value) {
	if res == nil {
		return
	}
	st0 := cc.Args[0].Type().Underlying().(*types.Slice)
	elem := st0.Elem()
	s := e.term(args[0])
	var addLen string
	srcIsString := isString(cc.Args[1].Type())
	t := e.term(args[1])
	if srcIsString {
		addLen = fmt.Sprintf("(len_s %s)", t)
	} else {
		addLen = fmt.Sprintf("(sl_len %s)", t)
	}
	hn, hs := e.d.heapElem(elem)
	h := e.heapGet(st, hn, hs)
	base := e.fresh("ap", "Ref")
	e.fact(not(eq(base, "nil_ref")))
	arr := e.fresh("aparr", "(Array Int "+e.sortOf(elem)+")")
	newLen := e.defTerm("aplen", fmt.Sprintf("(+ (sl_len %s) %s)", s, addLen), "Int")
	capc := e.fresh("apcap", "Int")
	e.fact(fmt.Sprintf("(>= %s %s)", capc, newLen))
	// contents
	e.fact(fmt.Sprintf("(forall ((i Int)) (! (=> (and (<= 0 i) (< i (sl_len %s))) (= (select %s i) (select (select %s (sl_base %s)) (+ (sl_off %s) i)))) :pattern ((select %s i))))", s, arr, h, s, s, arr))
	if srcIsString {
		e.fact(fmt.Sprintf("(forall ((i Int)) (! (=> (and (<= 0 i) (< i %s)) (= (select %s (+ (sl_len %s) i)) (at_s %s i))) :pattern ((select %s (+ (sl_len %s) i)))))", addLen, arr, s, t, arr, s))
	} else {
		e.fact(fmt.Sprintf("(forall ((i Int)) (! (=> (and (<= 0 i) (< i %s)) (= (select %s (+ (sl_len %s) i)) (select (select %s (sl_base %s)) (+ (sl_off %s) i)))) :pattern ((select %s (+ (sl_len %s) i)))))", addLen, arr, s, h, t, t, arr, s))
		// common small case: appended slice of known length 1
		e.fact(implies(eq(addLen, "1"), eq(fmt.Sprintf("(select %s (sl_len %s))", arr, s), fmt.Sprintf("(select (select %s (sl_base %s)) (sl_off %s))", h, t, t))))
	}
	e.heapSet(st, hn, hs, fmt.Sprintf("(store %s %s %s)", h, base, arr))
	e.note("append modelled as always allocating a fresh backing array (aliasing with the old slice after append is not tracked)")
	e.define(res, &Val{Ty: res.Type(), Sort: "Slice", T: fmt.Sprintf("(mk_slice %s 0 %s %s)", base, newLen, capc)})
}

func (e *FEnc) copyB(st *State, in ssa.Instruction, cc *ssa.CallCommon, args []*Val, res ssa.Value) {
	dst := e.term(args[0])
	src := e.term(args[1])
	elem := cc.Args[0].Type().Underlying().(*types.Slice).Elem()
	srcIsString := isString(cc.Args[1].Type())
	var slen string
	if srcIsString {
		slen = fmt.Sprintf("(len_s %s)", src)
	} else {
		slen = fmt.Sprintf("(sl_len %s)", src)
	}
	n := e.defTerm("cpn", fmt.Sprintf("(ite (<= (sl_len %s) %s) (sl_len %s) %s)", dst, slen, dst, slen), "Int")
	hn, hs := e.d.heapElem(elem)
	h := e.heapGet(st, hn, hs)
	arr := e.fresh("cparr", "(Array Int "+e.sortOf(elem)+")")
	var srcAt string
	if srcIsString {
		srcAt = fmt.Sprintf("(at_s %s (- k (sl_off %s)))", src, dst)
	} else {
		srcAt = fmt.Sprintf("(select (select %s (sl_base %s)) (+ (sl_off %s) (- k (sl_off %s))))", h, src, src, dst)
	}
	e.fact(fmt.Sprintf("(forall ((k Int)) (! (= (select %s k) (ite (and (<= (sl_off %s) k) (< k (+ (sl_off %s) %s))) %s (select (select %s (sl_base %s)) k))) :pattern ((select %s k))))", arr, dst, dst, n, srcAt, h, dst, arr))
	e.heapSet(st, hn, hs, fmt.Sprintf("(store %s (sl_base %s) %s)", h, dst, arr))
	if res != nil {
		e.define(res, e.intVal(n))
	}
}

// pureArg: pointer-to-struct arguments of pure repository functions are replaced by the pointed-to value.
func (e *FEnc) pureArg(st *State, a *Val) *Val {
	if a == nil || a.Ty == nil {
		return a
	}
	if pt, ok := a.Ty.Underlying().(*types.Pointer); ok {
		if structOf(pt.Elem()) != nil && st != nil {
			// only structures defined in the repository: handles of other packages (*fiber.Ctx, ...) are
			// opaque identities whose purity is a trusted assumption
			if n := namedOf(pt.Elem()); n != nil && n.Obj().Pkg() != nil && strings.HasPrefix(n.Obj().Pkg().Path(), "github.com/versity/versitygw") {
				return e.load(st, e.ptrOf(a))
			}
		}
	}
	return a
}

func (e *FEnc) calleeContract(cc *ssa.CallCommon) *FuncContract {
	if cc.IsInvoke() {
		if n := namedOf(cc.Value.Type()); n != nil && n.Obj().Pkg() != nil {
			return e.eng.contractByKey("iface:" + n.Obj().Pkg().Path() + "." + n.Obj().Name() + "." + cc.Method.Name())
		}
		return nil
	}
	if fn := cc.StaticCallee(); fn != nil {
		return e.eng.contractOf(fn)
	}
	return e.funcTypeContract(cc)
}

func (e *FEnc) funcTypeContract(cc *ssa.CallCommon) *FuncContract {
	if cc.IsInvoke() || cc.StaticCallee() != nil {
		return nil
	}
	if n := namedOf(cc.Value.Type()); n != nil && n.Obj().Pkg() != nil {
		return e.eng.contractByKey("iface:" + n.Obj().Pkg().Path() + "." + n.Obj().Name() + ".call")
	}
	return nil
}

// expandVariadic: a pure variadic function is a function of the elements of its variadic slice when that
// slice is a literal built at the call site (or absent); the symbol is then indexed by the element count.
func (e *FEnc) expandVariadic(st *State, sig *types.Signature, vals []*Val) (string, []*Val, bool) {
	if sig == nil || !sig.Variadic() || len(vals) == 0 {
		return "", nil, false
	}
	last := vals[len(vals)-1]
	if last == nil || last.Sort != "Slice" {
		return "", nil, false
	}
	if last.T == "(mk_slice nil_ref 0 0 0)" {
		return "_v0", vals[:len(vals)-1], true
	}
	if last.Box != nil && last.Box.P != nil && last.Box.P.Root == rLocal {
		id := last.Box.P.Alloc
		a := e.allocs[id]
		at, ok := a.Ty.Underlying().(*types.Array)
		cell, has := st.cells[id]
		if !ok || !has || a.Weak || at.Len() > 8 {
			return "", nil, false
		}
		out := append([]*Val{}, vals[:len(vals)-1]...)
		for i := int64(0); i < at.Len(); i++ {
			out = append(out, e.project(cell, []PathEl{{Field: -1, Index: fmt.Sprint(i)}}))
		}
		return fmt.Sprintf("_v%d", at.Len()), out, true
	}
	return "", nil, false
}

func onlyElemsOrMaps(ms []string) bool {
	for _, m := range ms {
		if m != "elems" && m != "maps" {
			return false
		}
	}
	return true
}

func (e *FEnc) havocLeakedArrays(st *State) {
	for _, id := range sortedInts(st.cells) {
		a := e.allocs[id]
		if !st.leaked[id] || a.Weak || a.Ty == nil {
			continue
		}
		if _, isArr := a.Ty.Underlying().(*types.Array); isArr {
			st.cells[id] = e.newVal(a.Ty, fmt.Sprintf("hv_%s", mangle(a.Name)))
		}
	}
}

// ownClause: the clause belongs to the contract of the function being encoded (not to an enclosing function whose
// call-site clauses govern this function literal). A governing clause that cannot be evaluated inside the literal —
// it speaks about names and calls of the enclosing function — is treated as not established there.
func (e *FEnc) ownClause(c *Clause) bool {
	if e.fc == nil {
		return false
	}
	for _, d := range e.fc.Clauses {
		if d == c {
			return true
		}
	}
	return false
}
