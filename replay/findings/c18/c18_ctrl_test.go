package c18

import (
	"context"
	"sort"
	"testing"

	"github.com/aws/aws-sdk-go-v2/service/s3"
	"github.com/versity/versitygw/backend"
	"github.com/versity/versitygw/s3response"
	"replay/gwtest"
)

type attrRecorder struct {
	backend.Backend
	got []string
}

func (a *attrRecorder) GetObjectAttributes(ctx context.Context, in *s3.GetObjectAttributesInput) (s3response.GetObjectAttributesResponse, error) {
	for _, x := range in.ObjectAttributes {
		a.got = append(a.got, string(x))
	}
	return a.Backend.GetObjectAttributes(ctx, in)
}

// The attributes a client asks for (x-amz-object-attributes) are part of the request the backend is handed: the S3-proxy
// backend sends them to its endpoint, and the SDK refuses a request without them — every GetObjectAttributes through the
// proxy answered 500. The handler kept the list to itself.
func TestRequestedObjectAttributesReachTheBackend(t *testing.T) {
	rec := &attrRecorder{}
	g := gwtest.Start(t, gwtest.Options{Wrap: func(b backend.Backend) backend.Backend { rec.Backend = b; return rec }})
	g.MustStatus(g.Put(g.RootC, "/bkt", nil, nil), 200, "create bucket")
	g.MustStatus(g.Put(g.RootC, "/bkt/obj", []byte("x"), nil), 200, "put")
	g.MustStatus(g.Get(g.RootC, "/bkt/obj?attributes", map[string]string{"X-Amz-Object-Attributes": "ETag,ObjectSize"}), 200, "get attributes")
	sort.Strings(rec.got)
	if len(rec.got) != 2 || rec.got[0] != "ETag" || rec.got[1] != "ObjectSize" {
		t.Errorf("the client asked for ETag,ObjectSize; the backend was handed %v", rec.got)
	}
}
