package main

// Discharging obligations with the installed SMT solvers.

import (
	"bytes"
	"context"
	"fmt"
	"os"
	"os/exec"
	"path/filepath"
	"regexp"
	"strings"
	"sync"
	"time"
)

type solverSpec struct {
	name string
	args func(file string, secs int) []string
}

var solvers = []solverSpec{
	{"z3-new", func(f string, s int) []string { return []string{"z3-new", fmt.Sprintf("-T:%d", s), f} }},
	{"cvc5", func(f string, s int) []string {
		return []string{"cvc5", fmt.Sprintf("--tlimit=%d", s*1000), "--produce-models", f}
	}},
	{"z3", func(f string, s int) []string { return []string{"z3", fmt.Sprintf("-T:%d", s), f} }},
}

// retrySolvers: the second round adds differently seeded z3 runs — a proof search that depends on quantifier
// instantiation order is sensitive to harmless differences in the query; diversifying the seed makes the verdict on
// an unchanged obligation robust instead of leaving it to one search order.
var retrySolvers = append(append([]solverSpec{}, solvers...),
	solverSpec{"z3-new/s7", func(f string, s int) []string {
		return []string{"z3-new", fmt.Sprintf("-T:%d", s), "smt.random_seed=7", "sat.random_seed=7", f}
	}},
	solverSpec{"z3-new/s23", func(f string, s int) []string {
		return []string{"z3-new", fmt.Sprintf("-T:%d", s), "smt.random_seed=23", "sat.random_seed=23", "smt.phase_selection=5", f}
	}},
	solverSpec{"z3/s11", func(f string, s int) []string {
		return []string{"z3", fmt.Sprintf("-T:%d", s), "smt.random_seed=11", f}
	}},
)

type solveResult struct {
	status string // unsat sat unknown timeout error
	out    string
	secs   float64
	solver string
}

func runSolver(sp solverSpec, file string, secs int) solveResult {
	return runSolverCtx(context.Background(), sp, file, secs)
}

func runSolverCtx(parent context.Context, sp solverSpec, file string, secs int) solveResult {
	args := sp.args(file, secs)
	ctx, cancel := context.WithTimeout(parent, time.Duration(secs+3)*time.Second)
	defer cancel()
	cmd := exec.CommandContext(ctx, args[0], args[1:]...)
	var out bytes.Buffer
	cmd.Stdout = &out
	cmd.Stderr = &out
	t0 := time.Now()
	_ = cmd.Run()
	el := time.Since(t0).Seconds()
	s := out.String()
	first := ""
	for _, l := range strings.Split(s, "\n") {
		l = strings.TrimSpace(l)
		if l == "" {
			continue
		}
		if l == "sat" || l == "unsat" || l == "unknown" || l == "timeout" {
			first = l
			break
		}
		if strings.HasPrefix(l, "(error") || strings.Contains(l, "rror") {
			// an error before the answer means part of the query was dropped: never trust the answer
			first = "error"
			break
		}
	}
	if first == "" {
		if ctx.Err() != nil {
			first = "timeout"
		} else {
			first = "error"
		}
	}
	return solveResult{first, s, el, sp.name}
}

type SolveOpts struct {
	Secs    int
	All     bool // run every solver and require agreement
	WorkDir string
	Keep    bool
	Retry   bool
	Solo    bool            // only the first solver, no race (zero-annotation safety sweep)
	NoRetry map[string]bool // obligations of open known findings: expected not to discharge
}

var reSafeName = regexp.MustCompile(`[^A-Za-z0-9_.\-]+`)

func solveOne(o *Obligation, opt SolveOpts, idx int) {
	t0 := time.Now()
	defer func() { o.Secs = time.Since(t0).Seconds() }()
	q, err := o.query(true)
	if err != nil {
		o.Status = "error"
		o.Raw = err.Error()
		return
	}
	o.Size = len(q)
	file := filepath.Join(opt.WorkDir, fmt.Sprintf("%04d_%s.smt2", idx, trunc(reSafeName.ReplaceAllString(o.Name, "_"), 100)))
	if err := os.WriteFile(file, []byte(q), 0o644); err != nil {
		o.Status = "error"
		o.Raw = err.Error()
		return
	}
	if opt.NoRetry[o.Name] && !opt.All && opt.Secs > 3 {
		opt.Secs = 3 // an open known finding: expected not to discharge, no point in waiting in the quick tier
	}
	want := "unsat"
	if o.Cover {
		want = "sat"
		// a contradiction among assumptions shows up quickly as unsat; proving satisfiability in the
		// presence of quantifiers is hard for the solvers and not needed: only "unsat" is a vacuity alarm
		if opt.Secs > 3 {
			opt.Secs = 3
		}
	}
	finish := func(r solveResult) bool {
		o.Secs += r.secs
		if r.status == want {
			if o.Cover {
				o.Status = "discharged"
			} else {
				o.Status = "discharged"
			}
			o.Solver = r.solver
			return true
		}
		return false
	}
	if opt.All && !o.Cover {
		// thorough tier: every solver is asked. After the first conclusive answer the others get a grace period (three
		// times what the first needed, at least 10 s) to contradict it; a solver still silent then counts as no answer.
		// (the differently seeded configurations of the retry round take part from the start: a proof that depends on
		// instantiation order must not be left to the three default searches in the tier that is meant to be the deeper one)
		solvers := retrySolvers
		var rs []solveResult
		ctxAll, cancelAll := context.WithCancel(context.Background())
		chAll := make(chan solveResult, len(solvers))
		for _, sp := range solvers {
			go func(sp solverSpec) { chAll <- runSolverCtx(ctxAll, sp, file, opt.Secs) }(sp)
		}
		var grace <-chan time.Time
		for len(rs) < len(solvers) {
			select {
			case r := <-chAll:
				rs = append(rs, r)
				if grace == nil && (r.status == "unsat" || r.status == "sat") {
					g := time.Duration(3*r.secs*float64(time.Second)) + 10*time.Second
					grace = time.After(g)
				}
			case <-grace:
				cancelAll()
				for len(rs) < len(solvers) {
					r := <-chAll
					if r.status != "unsat" && r.status != "sat" {
						r.status = "timeout"
					}
					rs = append(rs, r)
				}
			}
		}
		cancelAll()
		var un, sa []string
		for _, r := range rs {
			o.Secs += r.secs
			switch r.status {
			case "unsat":
				un = append(un, r.solver)
			case "sat":
				sa = append(sa, r.solver)
				o.Raw = r.out
			case "error":
				if o.Raw == "" {
					o.Raw = r.solver + ": " + trunc(r.out, 400)
				}
			}
		}
		switch {
		case len(un) > 0 && len(sa) > 0:
			o.Status = "error"
			o.Raw = "solver disagreement: unsat by " + strings.Join(un, ",") + ", sat by " + strings.Join(sa, ",")
		case len(un) > 0:
			o.Status = "discharged"
			o.Solver = strings.Join(un, "+")
		case len(sa) > 0:
			o.Status = "refuted"
			o.Solver = strings.Join(sa, "+")
			o.Model = parseModel(o.Raw)
		default:
			o.Status = "undecided"
		}
		return
	}
	if opt.Solo && !o.Cover {
		r := runSolver(solvers[0], file, opt.Secs)
		if finish(r) {
			return
		}
		if r.status == "sat" {
			o.Status = "refuted"
			o.Solver = r.solver
			o.Raw = r.out
			o.Model = parseModel(r.out)
			return
		}
		o.Status = "undecided"
		o.Raw = r.status
		return
	}
	// staged race: z3-new first; when it has not answered after a short head start the other two join.
	// The first conclusive answer (unsat, or sat with a model) wins and the rest are cancelled.
	ctx, cancel := context.WithCancel(context.Background())
	defer cancel()
	solvers := solvers
	if opt.Retry {
		solvers = retrySolvers
	}
	ch := make(chan solveResult, len(solvers))
	start := func(sp solverSpec) { go func() { ch <- runSolverCtx(ctx, sp, file, opt.Secs) }() }
	start(solvers[0])
	started, done := 1, 0
	timer := time.NewTimer(1500 * time.Millisecond)
	defer timer.Stop()
	var results []solveResult
	for done < started || started < len(solvers) {
		select {
		case <-timer.C:
			for started < len(solvers) {
				start(solvers[started])
				started++
			}
		case r := <-ch:
			done++
			results = append(results, r)
			if finish(r) {
				return
			}
			if (!o.Cover && r.status == "sat") || (o.Cover && r.status == "unsat") {
				o.Status = "refuted"
				o.Solver = r.solver
				o.Raw = r.out
				if !o.Cover {
					o.Model = parseModel(r.out)
				}
				return
			}
			if r.status == "error" && o.Raw == "" {
				o.Raw = r.solver + ": " + trunc(r.out, 600)
			}
			// inconclusive: bring in the others at once
			for started < len(solvers) {
				start(solvers[started])
				started++
			}
		}
	}
	o.Status = "undecided"
	if o.Raw == "" && len(results) > 0 {
		o.Raw = results[0].status
	}
}

func solveAll(obls []*Obligation, opt SolveOpts, workers int) {
	var wg sync.WaitGroup
	ch := make(chan int)
	for w := 0; w < workers; w++ {
		wg.Add(1)
		go func() {
			defer wg.Done()
			for i := range ch {
				solveOne(obls[i], opt, i)
			}
		}()
	}
	for i := range obls {
		ch <- i
	}
	close(ch)
	wg.Wait()
	// second round for obligations no solver answered: a few at a time, three times the budget.
	// (Under the parallel load of the first round a proof that needs a second or two can miss its slot.)
	var again []int
	for i, o := range obls {
		if o.Status == "undecided" && !o.Cover && !opt.NoRetry[o.Name] {
			again = append(again, i)
		}
	}
	if len(again) == 0 || opt.Retry {
		return
	}
	opt2 := opt
	opt2.Secs = opt.Secs * 3
	opt2.Retry = true
	sem := make(chan struct{}, 3)
	var wg2 sync.WaitGroup
	for _, i := range again {
		wg2.Add(1)
		go func(i int) {
			defer wg2.Done()
			sem <- struct{}{}
			defer func() { <-sem }()
			obls[i].Raw = ""
			solveOne(obls[i], opt2, i)
		}(i)
	}
	wg2.Wait()
}

// parseModel reads "(get-value ...)" output: ((term value) (term value) ...)
func parseModel(out string) map[string]string {
	m := map[string]string{}
	i := strings.Index(out, "((")
	if i < 0 {
		return m
	}
	s := out[i:]
	// tokenize s-expressions at depth 1
	depth := 0
	start := -1
	for k := 0; k < len(s); k++ {
		switch s[k] {
		case '(':
			depth++
			if depth == 2 {
				start = k
			}
		case ')':
			if depth == 2 && start >= 0 {
				pair := s[start+1 : k]
				if t, v, ok := splitPair(pair); ok {
					m[t] = v
				}
				start = -1
			}
			depth--
			if depth == 0 {
				return m
			}
		}
	}
	return m
}

func splitPair(p string) (string, string, bool) {
	p = strings.TrimSpace(p)
	if p == "" {
		return "", "", false
	}
	if p[0] != '(' {
		i := strings.IndexAny(p, " \t\n")
		if i < 0 {
			return "", "", false
		}
		return p[:i], strings.TrimSpace(p[i:]), true
	}
	d := 0
	for i := 0; i < len(p); i++ {
		if p[i] == '(' {
			d++
		} else if p[i] == ')' {
			d--
			if d == 0 {
				return p[:i+1], strings.TrimSpace(p[i+1:]), true
			}
		}
	}
	return "", "", false
}
