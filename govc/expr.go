package main

// Contract expression language: lexer + Pratt parser.
//
//   E ::= E ==> E | E <==> E | E || E | E && E | E cmp E | E + E | ... | !E | -E | *E
//       | forall x T, y T :: E | exists x T :: E
//       | old(E) | f(E,...) | E.name | E[E] | E[E:E] | ident | int | "str" | 'c' | (E)
//       | $k (k-th explicit argument at a call site) | ret0, ret1 ... | result | err

import (
	"fmt"
	"strconv"
	"strings"
	"unicode"
)

type BVar struct{ Name, Type string }

type Ex struct {
	Op    string // id int str char sel call index slice not neg deref old forall exists, or a binary operator
	Name  string
	Args  []*Ex
	BVars []BVar
	Pos   int
}

func (e *Ex) String() string {
	switch e.Op {
	case "id", "int":
		return e.Name
	case "str":
		return strconv.Quote(e.Name)
	case "char":
		return "'" + e.Name + "'"
	case "sel":
		return e.Args[0].String() + "." + e.Name
	case "call":
		var as []string
		for _, a := range e.Args {
			as = append(as, a.String())
		}
		return e.Name + "(" + strings.Join(as, ", ") + ")"
	case "mcall":
		var as []string
		for _, a := range e.Args[1:] {
			as = append(as, a.String())
		}
		return e.Args[0].String() + "." + e.Name + "(" + strings.Join(as, ", ") + ")"
	case "index":
		return e.Args[0].String() + "[" + e.Args[1].String() + "]"
	case "slice":
		s := e.Args[0].String() + "["
		if e.Args[1] != nil {
			s += e.Args[1].String()
		}
		s += ":"
		if e.Args[2] != nil {
			s += e.Args[2].String()
		}
		return s + "]"
	case "not":
		return "!" + e.Args[0].String()
	case "neg":
		return "-" + e.Args[0].String()
	case "deref":
		return "*" + e.Args[0].String()
	case "old":
		return "old(" + e.Args[0].String() + ")"
	case "forall", "exists":
		var vs []string
		for _, v := range e.BVars {
			vs = append(vs, v.Name+" "+v.Type)
		}
		return e.Op + " " + strings.Join(vs, ", ") + " :: " + e.Args[0].String()
	}
	if len(e.Args) == 2 {
		return "(" + e.Args[0].String() + " " + e.Op + " " + e.Args[1].String() + ")"
	}
	return e.Op
}

type tok struct {
	k string // id int str char op eof
	s string
	p int
}

func lex(src string) ([]tok, error) {
	var ts []tok
	i := 0
	for i < len(src) {
		c := src[i]
		switch {
		case c == ' ' || c == '\t' || c == '\n':
			i++
		case unicode.IsLetter(rune(c)) || c == '_' || c == '$':
			j := i + 1
			for j < len(src) && (unicode.IsLetter(rune(src[j])) || unicode.IsDigit(rune(src[j])) || src[j] == '_' || src[j] == '$') {
				j++
			}
			ts = append(ts, tok{"id", src[i:j], i})
			i = j
		case c >= '0' && c <= '9':
			j := i + 1
			for j < len(src) && (src[j] >= '0' && src[j] <= '9' || src[j] == 'x' || src[j] >= 'a' && src[j] <= 'f' || src[j] >= 'A' && src[j] <= 'F' || src[j] == '_') {
				j++
			}
			ts = append(ts, tok{"int", src[i:j], i})
			i = j
		case c == '"':
			j := i + 1
			for j < len(src) && src[j] != '"' {
				if src[j] == '\\' {
					j++
				}
				j++
			}
			if j >= len(src) {
				return nil, fmt.Errorf("unterminated string at %d", i)
			}
			s, err := strconv.Unquote(src[i : j+1])
			if err != nil {
				return nil, fmt.Errorf("bad string %s: %v", src[i:j+1], err)
			}
			ts = append(ts, tok{"str", s, i})
			i = j + 1
		case c == '\'':
			j := i + 1
			for j < len(src) && src[j] != '\'' {
				if src[j] == '\\' {
					j++
				}
				j++
			}
			if j >= len(src) {
				return nil, fmt.Errorf("unterminated char at %d", i)
			}
			r, _, _, err := strconv.UnquoteChar(src[i+1:j], '\'')
			if err != nil {
				return nil, err
			}
			ts = append(ts, tok{"char", strconv.Itoa(int(r)), i})
			i = j + 1
		default:
			ops := []string{"<==>", "==>", "::", "||", "&&", "==", "!=", "<=", ">=", "<", ">", "+", "-", "*", "/", "%", "!", ".", "(", ")", "[", "]", ",", ":"}
			found := false
			for _, o := range ops {
				if strings.HasPrefix(src[i:], o) {
					ts = append(ts, tok{"op", o, i})
					i += len(o)
					found = true
					break
				}
			}
			if !found {
				return nil, fmt.Errorf("unexpected %q at %d in %q", c, i, src)
			}
		}
	}
	ts = append(ts, tok{"eof", "", len(src)})
	return ts, nil
}

type parser struct {
	ts  []tok
	i   int
	src string
}

func parseExpr(src string) (e *Ex, err error) {
	ts, err := lex(src)
	if err != nil {
		return nil, err
	}
	p := &parser{ts: ts, src: src}
	defer func() {
		if r := recover(); r != nil {
			if pe, ok := r.(parseErr); ok {
				err = fmt.Errorf("%s in %q", string(pe), src)
				return
			}
			panic(r)
		}
	}()
	e = p.expr(0)
	if p.peek().k != "eof" {
		p.fail("trailing input at %d", p.peek().p)
	}
	return e, nil
}

type parseErr string

func (p *parser) fail(f string, a ...any) { panic(parseErr(fmt.Sprintf(f, a...))) }
func (p *parser) peek() tok               { return p.ts[p.i] }
func (p *parser) next() tok               { t := p.ts[p.i]; p.i++; return t }
func (p *parser) isOp(s string) bool      { t := p.peek(); return t.k == "op" && t.s == s }
func (p *parser) expect(s string) {
	if !p.isOp(s) {
		p.fail("expected %q at %d, got %q", s, p.peek().p, p.peek().s)
	}
	p.i++
}

var binPrec = map[string]int{
	"<==>": 1, "==>": 2, "||": 3, "&&": 4,
	"==": 5, "!=": 5, "<": 5, "<=": 5, ">": 5, ">=": 5,
	"+": 6, "-": 6, "*": 7, "/": 7, "%": 7,
}

func (p *parser) expr(min int) *Ex {
	lhs := p.unary()
	for {
		t := p.peek()
		if t.k != "op" {
			return lhs
		}
		pr, ok := binPrec[t.s]
		if !ok || pr < min {
			return lhs
		}
		p.i++
		var rhs *Ex
		if t.s == "==>" { // right associative
			rhs = p.expr(pr)
		} else {
			rhs = p.expr(pr + 1)
		}
		lhs = &Ex{Op: t.s, Args: []*Ex{lhs, rhs}, Pos: t.p}
	}
}

func (p *parser) unary() *Ex {
	t := p.peek()
	if t.k == "op" {
		switch t.s {
		case "!":
			p.i++
			return &Ex{Op: "not", Args: []*Ex{p.unary()}, Pos: t.p}
		case "-":
			p.i++
			return &Ex{Op: "neg", Args: []*Ex{p.unary()}, Pos: t.p}
		case "*":
			p.i++
			return &Ex{Op: "deref", Args: []*Ex{p.unary()}, Pos: t.p}
		}
	}
	if t.k == "id" && (t.s == "forall" || t.s == "exists") {
		p.i++
		var bvs []BVar
		for {
			n := p.next()
			if n.k != "id" {
				p.fail("expected bound variable at %d", n.p)
			}
			ty := p.typeName()
			bvs = append(bvs, BVar{n.s, ty})
			if p.isOp(",") {
				p.i++
				continue
			}
			break
		}
		p.expect("::")
		body := p.expr(0)
		return &Ex{Op: t.s, BVars: bvs, Args: []*Ex{body}, Pos: t.p}
	}
	return p.postfix(p.primary())
}

func (p *parser) typeName() string {
	s := ""
	for p.isOp("*") || p.isOp("[") {
		if p.isOp("*") {
			p.i++
			s += "*"
		} else {
			p.i++
			p.expect("]")
			s += "[]"
		}
	}
	n := p.next()
	if n.k != "id" {
		p.fail("expected type name at %d", n.p)
	}
	s += n.s
	for p.isOp(".") {
		p.i++
		m := p.next()
		s += "." + m.s
	}
	return s
}

func (p *parser) primary() *Ex {
	t := p.next()
	switch t.k {
	case "int":
		return &Ex{Op: "int", Name: strings.ReplaceAll(t.s, "_", ""), Pos: t.p}
	case "str":
		return &Ex{Op: "str", Name: t.s, Pos: t.p}
	case "char":
		return &Ex{Op: "int", Name: t.s, Pos: t.p}
	case "id":
		if t.s == "old" && p.isOp("(") {
			p.i++
			e := p.expr(0)
			p.expect(")")
			return &Ex{Op: "old", Args: []*Ex{e}, Pos: t.p}
		}
		return &Ex{Op: "id", Name: t.s, Pos: t.p}
	case "op":
		if t.s == "(" {
			e := p.expr(0)
			p.expect(")")
			return e
		}
	}
	p.fail("unexpected %q at %d", t.s, t.p)
	return nil
}

func (p *parser) postfix(e *Ex) *Ex {
	for {
		switch {
		case p.isOp("."):
			p.i++
			n := p.next()
			if n.k != "id" && n.k != "int" {
				p.fail("expected field name at %d", n.p)
			}
			e = &Ex{Op: "sel", Name: n.s, Args: []*Ex{e}, Pos: n.p}
		case p.isOp("("):
			p.i++
			var args []*Ex
			for !p.isOp(")") {
				args = append(args, p.expr(0))
				if p.isOp(",") {
					p.i++
				}
			}
			p.expect(")")
			name := exName(e)
			if name == "" {
				if e.Op == "sel" { // method call on a computed receiver: X.m(args)
					e = &Ex{Op: "mcall", Name: e.Name, Args: append([]*Ex{e.Args[0]}, args...), Pos: e.Pos}
					continue
				}
				p.fail("call of non-name at %d", e.Pos)
			}
			e = &Ex{Op: "call", Name: name, Args: args, Pos: e.Pos}
		case p.isOp("["):
			p.i++
			var lo, hi *Ex
			if !p.isOp(":") {
				lo = p.expr(0)
			}
			if p.isOp(":") {
				p.i++
				if !p.isOp("]") {
					hi = p.expr(0)
				}
				p.expect("]")
				e = &Ex{Op: "slice", Args: []*Ex{e, lo, hi}, Pos: e.Pos}
			} else {
				p.expect("]")
				e = &Ex{Op: "index", Args: []*Ex{e, lo}, Pos: e.Pos}
			}
		default:
			return e
		}
	}
}

// exName renders id / id.id chains as a dotted name (for calls and constants).
func exName(e *Ex) string {
	switch e.Op {
	case "id":
		return e.Name
	case "sel":
		b := exName(e.Args[0])
		if b == "" {
			return ""
		}
		return b + "." + e.Name
	}
	return ""
}
