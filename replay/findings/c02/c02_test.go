// Demonstrations for C02: a request signed with a wrong secret must be refused and change nothing,
// also on routes whose handler never reads the request body.
package c02

import (
	"bytes"
	"crypto/hmac"
	"crypto/sha256"
	"encoding/hex"
	"fmt"
	"os"
	"path/filepath"
	"strings"
	"testing"
	"time"

	"replay/gwtest"
)

func TestWrongSecretLegalHoldRefused(t *testing.T) {
	g := gwtest.Start(t, gwtest.Options{})
	g.MustStatus(g.Put(g.RootC, "/lockbkt", nil, map[string]string{"X-Amz-Bucket-Object-Lock-Enabled": "true"}), 200, "create lock bucket")
	g.MustStatus(g.Put(g.RootC, "/lockbkt/obj", []byte("data"), nil), 200, "put")
	bad := gwtest.Cred{Access: g.RootC.Access, Secret: "not-the-secret"}
	if r := g.Put(bad, "/lockbkt/obj2", []byte("data"), nil); r.Status != 403 {
		t.Fatalf("plain PUT with a wrong secret: %s", r)
	}
	r := g.Put(bad, "/lockbkt/obj?legal-hold", []byte(`<LegalHold><Status>ON</Status></LegalHold>`), nil)
	h := g.Get(g.RootC, "/lockbkt/obj?legal-hold", nil)
	if r.Status/100 == 2 || string(h.Body) != "" && contains(string(h.Body), "<Status>ON</Status>") {
		t.Fatalf("PUT ?legal-hold signed with a wrong secret answered %d; legal hold now: %s", r.Status, h.Body)
	}
}

func TestWrongSecretRetentionRefused(t *testing.T) {
	g := gwtest.Start(t, gwtest.Options{})
	g.MustStatus(g.Put(g.RootC, "/lockbkt", nil, map[string]string{"X-Amz-Bucket-Object-Lock-Enabled": "true"}), 200, "create lock bucket")
	g.MustStatus(g.Put(g.RootC, "/lockbkt/obj", []byte("data"), nil), 200, "put")
	bad := gwtest.Cred{Access: g.RootC.Access, Secret: "not-the-secret"}
	body := []byte(`<Retention><Mode>GOVERNANCE</Mode><RetainUntilDate>2099-01-01T00:00:00Z</RetainUntilDate></Retention>`)
	r := g.Put(bad, "/lockbkt/obj?retention", body, nil)
	h := g.Get(g.RootC, "/lockbkt/obj?retention", nil)
	if r.Status/100 == 2 || h.Status == 200 {
		t.Fatalf("PUT ?retention signed with a wrong secret answered %d; GET ?retention now answers %d %s", r.Status, h.Status, h.Body)
	}
}

func TestWrongSecretDirectoryObjectRefused(t *testing.T) {
	g := gwtest.Start(t, gwtest.Options{})
	g.MustStatus(g.Put(g.RootC, "/bkt", nil, nil), 200, "create bucket")
	bad := gwtest.Cred{Access: g.RootC.Access, Secret: "not-the-secret"}
	r := g.Put(bad, "/bkt/newdir/", nil, nil)
	_, err := os.Stat(filepath.Join(g.Root, "bkt", "newdir"))
	if r.Status/100 == 2 || err == nil {
		t.Fatalf("PUT of a directory object signed with a wrong secret answered %d; directory exists on disk: %v", r.Status, err == nil)
	}
	// and a correctly signed one still works
	g.MustStatus(g.Put(g.RootC, "/bkt/gooddir/", nil, nil), 200, "directory object with a valid signature")
	if _, err := os.Stat(filepath.Join(g.Root, "bkt", "gooddir")); err != nil {
		t.Fatalf("valid directory object was not created: %v", err)
	}
}

func contains(s, sub string) bool {
	for i := 0; i+len(sub) <= len(s); i++ {
		if s[i:i+len(sub)] == sub {
			return true
		}
	}
	return false
}

// In a versioned bucket a rejected overwrite must not leave a new version behind.
func TestWrongSecretOverwriteLeavesNoVersion(t *testing.T) {
	g := gwtest.Start(t, gwtest.Options{Versioning: true})
	g.MustStatus(g.Put(g.RootC, "/bkt", nil, nil), 200, "create bucket")
	g.MustStatus(g.Put(g.RootC, "/bkt?versioning", []byte(`<VersioningConfiguration><Status>Enabled</Status></VersioningConfiguration>`), nil), 200, "versioning")
	g.MustStatus(g.Put(g.RootC, "/bkt/obj", []byte("v1"), nil), 200, "put")
	before := g.Get(g.RootC, "/bkt?versions", nil)
	bad := gwtest.Cred{Access: g.RootC.Access, Secret: "not-the-secret"}
	if r := g.Put(bad, "/bkt/obj", []byte("evil"), nil); r.Status != 403 {
		t.Fatalf("overwrite with a wrong secret: %s", r)
	}
	after := g.Get(g.RootC, "/bkt?versions", nil)
	nb, na := count(string(before.Body), "<Version>"), count(string(after.Body), "<Version>")
	if na != nb {
		t.Fatalf("a rejected overwrite changed the version history: %d versions before, %d after\n%s", nb, na, after.Body)
	}
}

func count(s, sub string) int {
	n := 0
	for i := 0; i+len(sub) <= len(s); i++ {
		if s[i:i+len(sub)] == sub {
			n++
		}
	}
	return n
}

// sanity: a valid overwrite in a versioned bucket still keeps the previous version retrievable
func TestValidOverwriteKeepsPreviousVersion(t *testing.T) {
	g := gwtest.Start(t, gwtest.Options{Versioning: true})
	g.MustStatus(g.Put(g.RootC, "/bkt", nil, nil), 200, "create bucket")
	g.MustStatus(g.Put(g.RootC, "/bkt?versioning", []byte(`<VersioningConfiguration><Status>Enabled</Status></VersioningConfiguration>`), nil), 200, "versioning")
	r1 := g.Put(g.RootC, "/bkt/obj", []byte("v1"), nil)
	g.MustStatus(r1, 200, "put v1")
	r2 := g.Put(g.RootC, "/bkt/obj", []byte("v2!"), nil)
	g.MustStatus(r2, 200, "put v2")
	v1 := r1.Header.Get("X-Amz-Version-Id")
	if got := g.Get(g.RootC, "/bkt/obj?versionId="+v1, nil); string(got.Body) != "v1" {
		t.Fatalf("previous version: %d %q", got.Status, got.Body)
	}
	if got := g.Get(g.RootC, "/bkt/obj", nil); string(got.Body) != "v2!" {
		t.Fatalf("current version: %d %q", got.Status, got.Body)
	}
	if n := count(string(g.Get(g.RootC, "/bkt?versions", nil).Body), "<Version>"); n != 2 {
		t.Fatalf("want 2 versions, got %d", n)
	}
}

// PUT /bucket/ (trailing slash) is routed to the bucket handler, which never reads the body; the request was nevertheless
// classified as a streaming upload, so its signature was never verified: a wrong secret created a bucket.
func TestWrongSecretBucketWithTrailingSlashRefused(t *testing.T) {
	g := gwtest.Start(t, gwtest.Options{})
	bad := gwtest.Cred{Access: g.RootC.Access, Secret: "not-the-secret"}
	r := g.Put(bad, "/newbucket/", nil, nil)
	h := g.Head(g.RootC, "/newbucket")
	if r.Status/100 == 2 || h.Status == 200 {
		t.Fatalf("PUT /newbucket/ signed with a wrong secret answered %d; HEAD /newbucket now answers %d", r.Status, h.Status)
	}
	if ok := g.Put(g.RootC, "/goodbucket/", nil, nil); ok.Status != 200 {
		t.Fatalf("PUT /goodbucket/ with the right secret: %s", ok)
	}
}

// An upload with x-amz-content-sha256: STREAMING-UNSIGNED-PAYLOAD-TRAILER carries no chunk signatures; the only check of
// the secret is the deferred header signature, evaluated when the raw body stream reports its end — which the chunk
// decoder never asked for once it had seen the trailer: a wrong secret stored an object.
func TestWrongSecretUnsignedTrailerUploadRefused(t *testing.T) {
	g := gwtest.Start(t, gwtest.Options{})
	g.MustStatus(g.Put(g.RootC, "/bkt", nil, nil), 200, "create bucket")
	body := []byte("a\r\n0123456789\r\n0\r\nx-amz-checksum-crc32:poTHxg==\r\n\r\n")
	send := func(c gwtest.Cred, key string) *gwtest.Resp {
		return g.Do(gwtest.Req{Method: "PUT", Target: "/bkt/" + key, Cred: c, Body: body, Payload: "STREAMING-UNSIGNED-PAYLOAD-TRAILER",
			Header: map[string]string{"Content-Encoding": "aws-chunked", "X-Amz-Trailer": "x-amz-checksum-crc32", "X-Amz-Decoded-Content-Length": "10"}})
	}
	if ok := send(g.RootC, "good"); ok.Status != 200 {
		t.Fatalf("valid unsigned-trailer upload: %s", ok)
	}
	bad := gwtest.Cred{Access: g.RootC.Access, Secret: "not-the-secret"}
	r := send(bad, "forged")
	h := g.Get(g.RootC, "/bkt/forged", nil)
	if r.Status/100 == 2 || h.Status == 200 {
		t.Fatalf("unsigned-trailer upload signed with a wrong secret answered %d; GET now answers %d (%d bytes)", r.Status, h.Status, len(h.Body))
	}
}

// signed aws-chunked encoding of one data chunk and the terminating chunk, chained from the request signature
func signedChunks(secret, region, seed string, at time.Time, data []byte) []byte {
	mac := func(k []byte, d string) []byte { h := hmac.New(sha256.New, k); h.Write([]byte(d)); return h.Sum(nil) }
	key := mac(mac(mac(mac([]byte("AWS4"+secret), at.Format("20060102")), region), "s3"), "aws4_request")
	scope := at.Format("20060102") + "/" + region + "/s3/aws4_request"
	empty := sha256.Sum256(nil)
	prev := seed
	sign := func(c []byte) string {
		h := sha256.Sum256(c)
		sts := "AWS4-HMAC-SHA256-PAYLOAD\n" + at.Format("20060102T150405Z") + "\n" + scope + "\n" + prev + "\n" + hex.EncodeToString(empty[:]) + "\n" + hex.EncodeToString(h[:])
		prev = hex.EncodeToString(mac(key, sts))
		return prev
	}
	var b bytes.Buffer
	fmt.Fprintf(&b, "%x;chunk-signature=%s\r\n%s\r\n", len(data), sign(data), data)
	fmt.Fprintf(&b, "0;chunk-signature=%s\r\n\r\n", sign(nil))
	return b.Bytes()
}

// A signed aws-chunked upload (STREAMING-AWS4-HMAC-SHA256-PAYLOAD) proves the secret through its chunk signatures, but
// these only chain from the VALUE of the request signature: that this value fits the request line and the signed headers
// is checked when the raw body reports its end. A captured upload replayed onto another key, or with other signed
// headers, keeps valid chunk signatures; it must still be refused.
func TestReplayedSignedChunkUploadOntoAnotherKeyRefused(t *testing.T) {
	g := gwtest.Start(t, gwtest.Options{})
	g.MustStatus(g.Put(g.RootC, "/bkt", nil, nil), 200, "create bucket")
	data := []byte("0123456789")
	var body []byte
	ok := g.Do(gwtest.Req{Method: "PUT", Target: "/bkt/original", Cred: g.RootC, Payload: "STREAMING-AWS4-HMAC-SHA256-PAYLOAD",
		Header: map[string]string{"Content-Encoding": "aws-chunked", "X-Amz-Decoded-Content-Length": "10", "X-Amz-Meta-Owner": "alice"},
		BodyFn: func(seed string, at time.Time) []byte {
			body = signedChunks(g.RootC.Secret, g.Region, seed, at, data)
			return body
		}})
	if ok.Status != 200 {
		t.Fatalf("valid signed chunk upload: %s", ok)
	}
	// the captured request, sent again to another key and with another value of a signed header
	hdr := map[string]string{}
	for k, v := range ok.Sent {
		hdr[k] = v
	}
	hdr["X-Amz-Meta-Owner"] = "mallory"
	for _, tail := range []int{0, 200000} {
		delete(hdr, "Content-Length")
		replay := append(append([]byte{}, body...), bytes.Repeat([]byte{'x'}, tail)...)
		r := g.Do(gwtest.Req{Method: "PUT", Target: "/bkt/elsewhere", NoAuth: true, Header: hdr, Body: replay})
		h := g.Get(g.RootC, "/bkt/elsewhere", nil)
		if r.Status/100 == 2 || h.Status == 200 {
			t.Fatalf("replayed upload (+%d bytes after the terminating chunk) onto another key with altered signed header answered %d; GET /bkt/elsewhere answers %d (%d bytes, x-amz-meta-owner=%q)",
				tail, r.Status, h.Status, len(h.Body), h.Header.Get("X-Amz-Meta-Owner"))
		}
	}
}

// x-amz-* headers that the signature does not cover were honoured: a captured, correctly signed empty PUT, sent again
// with an added x-amz-copy-source header, performed a server-side copy of another object; added x-amz-meta-* and
// x-amz-tagging headers were stored.
func TestUnsignedAmzHeaderAddedToACapturedRequestIsRefused(t *testing.T) {
	g := gwtest.Start(t, gwtest.Options{})
	g.MustStatus(g.Put(g.RootC, "/bkt", nil, nil), 200, "create bucket")
	g.MustStatus(g.Put(g.RootC, "/bkt/secret", []byte("content-of-another-object"), nil), 200, "put secret")
	ok := g.Do(gwtest.Req{Method: "PUT", Target: "/bkt/public", Cred: g.RootC})
	if ok.Status != 200 {
		t.Fatalf("signed empty PUT: %s", ok)
	}
	hdr := map[string]string{}
	for k, v := range ok.Sent {
		hdr[k] = v
	}
	hdr["X-Amz-Copy-Source"] = "bkt/secret"
	hdr["X-Amz-Meta-Role"] = "admin"
	r := g.Do(gwtest.Req{Method: "PUT", Target: "/bkt/public", NoAuth: true, Header: hdr})
	got := g.Get(g.RootC, "/bkt/public", nil)
	if r.Status/100 == 2 || string(got.Body) == "content-of-another-object" || got.Header.Get("X-Amz-Meta-Role") != "" {
		t.Errorf("the captured request with two added x-amz-* headers answered %d; /bkt/public now holds %q with x-amz-meta-role %q",
			r.Status, got.Body, got.Header.Get("X-Amz-Meta-Role"))
	}
}

// Presigned URLs: (1) a query parameter named "#" (sent as %23) was written unescaped into the URL the signature is
// recomputed for, where it starts a fragment — every parameter after it was outside the signature but seen by the
// handlers (versionId, tagging, …); (2) the path the signature was recomputed for was decoded once more than the path
// the handlers use, so a URL signed for /bkt/aA served the key "a%41".
func TestPresignedUrlCannotBeExtendedOrRedirected(t *testing.T) {
	g := gwtest.Start(t, gwtest.Options{})
	g.MustStatus(g.Put(g.RootC, "/bkt", nil, nil), 200, "create bucket")
	g.MustStatus(g.Put(g.RootC, "/bkt/aA", []byte("object aA"), nil), 200, "put aA")
	g.MustStatus(g.Put(g.RootC, "/bkt/a%2541", []byte("object a%41"), nil), 200, "put the key a%41")
	g.MustStatus(g.Put(g.RootC, "/bkt/tagged", []byte("x"), map[string]string{"X-Amz-Tagging": "a=b"}), 200, "put tagged")
	now := time.Now().UTC()
	u := g.Presign(g.RootC, "GET", "/bkt/aA", 600, now)
	if r := g.Do(gwtest.Req{Method: "GET", Target: u, NoAuth: true}); r.Status != 200 || string(r.Body) != "object aA" {
		t.Fatalf("valid presigned GET: %d %q", r.Status, r.Body)
	}
	// (2) the same signature on another path spelling
	other := strings.Replace(u, "/bkt/aA", "/bkt/a%2541", 1)
	if r := g.Do(gwtest.Req{Method: "GET", Target: other, NoAuth: true}); r.Status/100 == 2 {
		t.Errorf("the url signed for /bkt/aA, sent to /bkt/a%%2541, answered %d %q", r.Status, r.Body)
	}
	// (1) parameters appended behind a parameter named '#'
	up := g.Presign(g.RootC, "GET", "/bkt/tagged", 600, now)
	if r := g.Do(gwtest.Req{Method: "GET", Target: up + "&%23=&tagging=", NoAuth: true}); r.Status/100 == 2 && strings.Contains(string(r.Body), "Tagging") {
		t.Errorf("the url signed for GET /bkt/tagged, with \"&%%23=&tagging=\" appended, answered the tagging sub-resource: %d %s", r.Status, r.Body)
	}
}
