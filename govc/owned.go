package main

// ownedstr: an ownership condition on a string argument. Strings are values in the logic, but the gateway runs fiber
// without Immutable: a string read from the request (header, query, path) is a view of a buffer the server reuses for
// the next request, so a string that is kept beyond the request has to be a copy. ownedstr($k) holds when the SSA value
// of the argument is, on every path, something the function made itself: the result of strings.Clone, a constant, a
// concatenation, a conversion from bytes, or a field of a local struct whose only store to that field is such a value.
// Anything else (a parameter, a load from foreign memory, the result of another call) does not count.

import (
	"go/token"

	"golang.org/x/tools/go/ssa"
)

func ownedString(v ssa.Value, depth int) bool {
	if depth > 8 {
		return false
	}
	switch x := v.(type) {
	case *ssa.Const:
		return true
	case *ssa.Call:
		if fn := x.Call.StaticCallee(); fn != nil && fn.Pkg != nil && fn.Pkg.Pkg.Path() == "strings" && fn.Name() == "Clone" {
			return true
		}
		return false
	case *ssa.BinOp:
		return x.Op == token.ADD
	case *ssa.Convert:
		return true
	case *ssa.ChangeType:
		return ownedString(x.X, depth+1)
	case *ssa.Phi:
		for _, e := range x.Edges {
			if !ownedString(e, depth+1) {
				return false
			}
		}
		return true
	case *ssa.UnOp:
		if x.Op != token.MUL {
			return false
		}
		fa, ok := x.X.(*ssa.FieldAddr)
		if !ok {
			return false
		}
		al, ok := fa.X.(*ssa.Alloc)
		if !ok || al.Referrers() == nil {
			return false
		}
		// every store to this field of the local struct stores an owned string; no whole-struct store
		n := 0
		for _, r := range *al.Referrers() {
			switch y := r.(type) {
			case *ssa.Store:
				if y.Addr == ssa.Value(al) {
					return false
				}
			case *ssa.FieldAddr:
				if y.Field != fa.Field || y.Referrers() == nil {
					continue
				}
				for _, rr := range *y.Referrers() {
					if st, ok := rr.(*ssa.Store); ok && st.Addr == ssa.Value(y) {
						n++
						if !ownedString(st.Val, depth+1) {
							return false
						}
					}
				}
			}
		}
		return n > 0
	}
	return false
}
