package main

// Replay of verifier counterexamples against the real code.
//
// A refuted obligation comes with a model of the function's inputs. Where the function can be called from a test with
// those inputs alone — a package-level function (or a method on a scalar/string receiver) all of whose parameters are
// booleans, integers or strings — the model is turned into an in-package Go test that calls the real function with
// the model's values and then evaluates the failed clause (translated to Go) on the real results, or, for a
// runtime-fault obligation, expects the panic. The test runs through `go test -overlay`, so nothing is written into
// the repository. Only when the real code shows the failure is the violation "confirmed"; the solver's model lives
// in a world where library functions are arbitrary functions satisfying their contracts, so a model that does not
// reproduce is reported as such (no-failing-input-found).
//
// Not replayable (stays unconfirmed): functions with pointer, struct, slice, map, interface or function parameters,
// function literals, clauses with quantifiers, ghost functions, old(), path ghosts (called/result/arg), heap reads.

import (
	"bytes"
	"context"
	"encoding/json"
	"fmt"
	"go/types"
	"os"
	"os/exec"
	"path/filepath"
	"strconv"
	"strings"
	"time"

	"golang.org/x/tools/go/ssa"
)

const replayMaxStr = 48 // bytes of a string parameter requested from the model

func replayable(fn *ssa.Function) bool {
	if fn == nil || fn.Parent() != nil || fn.Pkg == nil || fn.Object() == nil {
		return false
	}
	for i, p := range fn.Params {
		if i == 0 && fn.Signature.Recv() != nil && !simpleType(p.Type()) {
			// a value receiver that is a map, slice or struct is replayed with its zero value (enough for methods
			// that do not read it; otherwise the replay simply does not reproduce)
			switch p.Type().Underlying().(type) {
			case *types.Map, *types.Slice, *types.Struct:
				continue
			}
		}
		if !simpleType(p.Type()) {
			return false
		}
	}
	return true
}

func simpleType(t types.Type) bool {
	b, ok := t.Underlying().(*types.Basic)
	if !ok {
		return false
	}
	return b.Info()&(types.IsBoolean|types.IsInteger|types.IsString) != 0
}

// modelTerms: the SMT terms whose values are needed to rebuild the inputs.
func (o *Obligation) modelTerms() []string {
	if o.fe == nil || !replayable(o.fe.fn) {
		return nil
	}
	var ts []string
	for _, p := range o.fe.fn.Params {
		v := o.fe.vals[p]
		if !simpleType(p.Type()) {
			continue
		}
		if v == nil || v.T == "" {
			return nil
		}
		switch v.Sort {
		case "Int", "Bool":
			ts = append(ts, v.T)
		case "Str":
			ts = append(ts, fmt.Sprintf("(len_s %s)", v.T))
			for i := 0; i < replayMaxStr; i++ {
				ts = append(ts, fmt.Sprintf("(at_s %s %d)", v.T, i))
			}
		default:
			return nil
		}
	}
	return ts
}

func smtInt(s string) (int64, bool) {
	s = strings.TrimSpace(s)
	neg := false
	if strings.HasPrefix(s, "(-") {
		neg = true
		s = strings.TrimSpace(strings.TrimSuffix(strings.TrimPrefix(s, "(-"), ")"))
	}
	n, err := strconv.ParseInt(s, 10, 64)
	if err != nil {
		return 0, false
	}
	if neg {
		n = -n
	}
	return n, true
}

// goLiteral renders the model's value of parameter p as a Go expression of p's type.
func (o *Obligation) goLiteral(p *ssa.Parameter, qual types.Qualifier) (string, bool) {
	v := o.fe.vals[p]
	ty := types.TypeString(p.Type(), qual)
	switch v.Sort {
	case "Bool":
		val, ok := o.Model[v.T]
		if !ok {
			val = "false" // no model (the solvers did not decide): the search starts from zero values
		}
		return fmt.Sprintf("%s(%s)", ty, val), true
	case "Int":
		n, ok := smtInt(o.Model[v.T])
		if !ok {
			n = 0
		}
		return fmt.Sprintf("%s(%d)", ty, n), true
	case "Str":
		n, ok := smtInt(o.Model[fmt.Sprintf("(len_s %s)", v.T)])
		if !ok {
			return ty + `("")`, true
		}
		if n < 0 || n > replayMaxStr {
			return ty + `("")`, true // too long to rebuild: the search starts from the empty string
		}
		bs := make([]byte, n)
		for i := range bs {
			c, ok := smtInt(o.Model[fmt.Sprintf("(at_s %s %d)", v.T, i)])
			if !ok || c < 0 || c > 255 {
				return "", false
			}
			bs[i] = byte(c)
		}
		return fmt.Sprintf("%s(%s)", ty, strconv.Quote(string(bs))), true
	}
	return "", false
}

type goTr struct {
	fn      *ssa.Function
	eng     *Engine
	imports map[string]string // package name -> path
	err     error
	ghosts  map[string]bool // ghost functions with a body that the clause uses (emitted as Go functions)
	bound   map[string]bool // names bound by quantifiers or ghost parameters (not parameters of the function)
	nq      int
	iteType string // inside a ghost body: the Go type of its conditional expressions (evaluated lazily)
}

var goTypeOfGhost = map[string]string{"int": "int", "string": "string", "bool": "bool", "byte": "byte", "int64": "int64", "int32": "int32"}

// ghostFuncs renders the used ghost functions (those with a body over expressible operations) as Go functions.
func (g *goTr) ghostFuncs() string {
	var b strings.Builder
	done := map[string]bool{}
	for {
		progress := false
		for _, n := range sortedKeys(g.ghosts) {
			if done[n] {
				continue
			}
			done[n] = true
			progress = true
			gh := g.eng.cs.Ghosts[n]
			var ps []string
			saved := g.bound
			g.bound = map[string]bool{}
			for k := range saved {
				g.bound[k] = true
			}
			for _, p := range gh.Params {
				gt, ok := goTypeOfGhost[p.Type]
				if !ok {
					g.fail("ghost %s has a parameter of type %s", n, p.Type)
					gt = "int"
				}
				ps = append(ps, "g_"+p.Name+" "+gt)
				g.bound[p.Name] = true
			}
			rt, ok := goTypeOfGhost[gh.Ret]
			if !ok {
				g.fail("ghost %s returns %s", n, gh.Ret)
				rt = "bool"
			}
			g.iteType = rt
			body := g.expr(gh.Body)
			g.iteType = ""
			g.bound = saved
			fmt.Fprintf(&b, "func govcGhost_%s(%s) %s {\n\treturn %s\n}\n\n", n, strings.Join(ps, ", "), rt, body)
		}
		if !progress {
			break
		}
	}
	return b.String()
}

// boundedQuant recognises  forall i int :: lo <= i && i < hi ==> P   /   exists i int :: lo <= i && i < hi && P
func (g *goTr) boundedQuant(x *Ex) (string, bool) {
	if len(x.BVars) != 1 || x.BVars[0].Type != "int" {
		return "", false
	}
	v := x.BVars[0].Name
	body := x.Args[0]
	var rng, rest *Ex
	if x.Op == "forall" && body.Op == "==>" {
		rng, rest = body.Args[0], body.Args[1]
	} else if x.Op == "exists" && body.Op == "&&" {
		// (lo <= i && i < hi) && P   parsed left-assoc: ((lo<=i && i<hi) && P)
		rng, rest = body.Args[0], body.Args[1]
	} else {
		return "", false
	}
	if rng.Op != "&&" || len(rng.Args) != 2 {
		return "", false
	}
	lo, hi := rng.Args[0], rng.Args[1]
	isV := func(e *Ex) bool { return e.Op == "id" && e.Name == v }
	var loS, hiS string
	saved := g.bound
	g.bound = map[string]bool{v: true}
	for k := range saved {
		g.bound[k] = true
	}
	defer func() { g.bound = saved }()
	switch {
	case lo.Op == "<=" && isV(lo.Args[1]):
		loS = g.expr(lo.Args[0])
	case lo.Op == "<" && isV(lo.Args[1]):
		loS = "(" + g.expr(lo.Args[0]) + ")+1"
	default:
		return "", false
	}
	switch {
	case hi.Op == "<" && isV(hi.Args[0]):
		hiS = g.expr(hi.Args[1])
	case hi.Op == "<=" && isV(hi.Args[0]):
		hiS = "(" + g.expr(hi.Args[1]) + ")+1"
	default:
		return "", false
	}
	fn := "govcAll"
	if x.Op == "exists" {
		fn = "govcAny"
	}
	return fmt.Sprintf("%s(int(%s), int(%s), func(g_%s int) bool { return %s })", fn, loS, hiS, v, g.expr(rest)), true
}

func (g *goTr) fail(f string, a ...any) string {
	if g.err == nil {
		g.err = fmt.Errorf(f, a...)
	}
	return "false"
}

// expr translates a contract expression to Go, or records why it cannot.
func (g *goTr) expr(x *Ex) string {
	switch x.Op {
	case "int":
		return x.Name
	case "str":
		return strconv.Quote(x.Name)
	case "id":
		if g.bound[x.Name] {
			return "g_" + x.Name
		}
		switch x.Name {
		case "result":
			return "ret0"
		case "err":
			res := g.fn.Signature.Results()
			return fmt.Sprintf("ret%d", res.Len()-1)
		}
		for i, p := range g.fn.Params {
			if x.Name == fmt.Sprintf("in%d", i) {
				return "in_" + p.Name()
			}
			if p.Name() == x.Name {
				return "in_" + p.Name()
			}
		}
		if strings.HasPrefix(x.Name, "$") {
			return g.fail("call-site name %s", x.Name)
		}
		return x.Name // retK, nil, true, false, package-level names of the function's own package
	case "sel":
		if x.Args[0].Op == "id" {
			for _, p := range g.eng.tpkgs {
				if p.Name() == x.Args[0].Name && !g.isLocalName(x.Args[0].Name) {
					g.imports[p.Name()] = p.Path()
					return p.Name() + "." + x.Name
				}
			}
		}
		if _, err := strconv.Atoi(x.Name); err == nil { // tuple component of a call
			if x.Args[0].Op != "call" {
				return g.fail("tuple selection on %s", x.Args[0])
			}
			return fmt.Sprintf("govcSel%s(%s)", x.Name, g.expr(x.Args[0]))
		}
		return g.expr(x.Args[0]) + "." + x.Name
	case "call":
		switch x.Name {
		case "len", "cap", "min", "max":
			return x.Name + "(" + g.args(x.Args) + ")"
		case "ite":
			if len(x.Args) != 3 {
				return g.fail("ite arity")
			}
			if g.iteType != "" { // lazily: recursive ghost definitions rely on the untaken branch not being evaluated
				return fmt.Sprintf("func() %s {\n\t\tif %s {\n\t\t\treturn %s\n\t\t}\n\t\treturn %s\n\t}()", g.iteType, g.expr(x.Args[0]), g.expr(x.Args[1]), g.expr(x.Args[2]))
			}
			return fmt.Sprintf("govcIte(%s, %s, %s)", g.expr(x.Args[0]), g.expr(x.Args[1]), g.expr(x.Args[2]))
		case "old", "called", "ncalls", "captured", "result", "arg", "visited", "in", "as", "typeIs", "iface", "samearray":
			return g.fail("%s(...) has no meaning outside the verifier", x.Name)
		}
		if gh, ok := g.eng.cs.Ghosts[x.Name]; ok {
			if gh.Body == nil {
				return g.fail("ghost function %s has no definition", x.Name)
			}
			if g.ghosts == nil {
				g.ghosts = map[string]bool{}
			}
			g.ghosts[x.Name] = true
			var as []string
			for i, a := range x.Args {
				t := g.expr(a)
				if i < len(gh.Params) {
					if gt, ok := goTypeOfGhost[gh.Params[i].Type]; ok && gt != "string" && gt != "bool" {
						t = gt + "(" + t + ")"
					}
				}
				as = append(as, t)
			}
			return "govcGhost_" + x.Name + "(" + strings.Join(as, ", ") + ")"
		}
		if i := strings.Index(x.Name, "."); i > 0 {
			pn := x.Name[:i]
			for _, p := range g.eng.tpkgs {
				if p.Name() == pn {
					g.imports[p.Name()] = p.Path()
				}
			}
		}
		return x.Name + "(" + g.args(x.Args) + ")"
	case "mcall":
		return g.expr(x.Args[0]) + "." + x.Name + "(" + g.args(x.Args[1:]) + ")"
	case "index":
		return g.expr(x.Args[0]) + "[" + g.expr(x.Args[1]) + "]"
	case "slice":
		lo, hi := "", ""
		if x.Args[1] != nil {
			lo = g.expr(x.Args[1])
		}
		if x.Args[2] != nil {
			hi = g.expr(x.Args[2])
		}
		return g.expr(x.Args[0]) + "[" + lo + ":" + hi + "]"
	case "not":
		return "!(" + g.expr(x.Args[0]) + ")"
	case "neg":
		return "-(" + g.expr(x.Args[0]) + ")"
	case "deref":
		return g.fail("heap read")
	case "old":
		return g.fail("old()")
	case "forall", "exists":
		if t, ok := g.boundedQuant(x); ok {
			return t
		}
		return g.fail("quantifier without an integer range")
	case "==>":
		return "(!(" + g.expr(x.Args[0]) + ") || (" + g.expr(x.Args[1]) + "))"
	case "<==>":
		return "((" + g.expr(x.Args[0]) + ") == (" + g.expr(x.Args[1]) + "))"
	}
	if len(x.Args) == 2 {
		return "(" + g.expr(x.Args[0]) + " " + x.Op + " " + g.expr(x.Args[1]) + ")"
	}
	return g.fail("expression %s", x)
}

func (g *goTr) isLocalName(n string) bool {
	for _, p := range g.fn.Params {
		if p.Name() == n {
			return true
		}
	}
	return false
}

func (g *goTr) args(as []*Ex) string {
	var ss []string
	for _, a := range as {
		ss = append(ss, g.expr(a))
	}
	return strings.Join(ss, ", ")
}

// clauseOf finds the contract clause an obligation came from (post obligations of the function's own contract).
func clauseOf(o *Obligation) *Clause {
	if o.fe == nil || o.fe.fc == nil {
		return nil
	}
	for _, c := range o.fe.fc.Clauses {
		if c.Kind != "ensures" && c.Kind != "atreturn" {
			continue
		}
		if strings.HasSuffix(o.Name, "#post#"+clauseKey(c, "ensures")) || strings.HasSuffix(o.Name, "#post#"+clauseKey(c, "atreturn")) {
			return c
		}
	}
	return nil
}

func tryReplay(eng *Engine, o *Obligation) (string, bool) {
	if o.fe == nil || !replayable(o.fe.fn) {
		return "", false
	}
	fn := o.fe.fn
	pkg := fn.Pkg.Pkg
	qual := func(p *types.Package) string {
		if p == pkg {
			return ""
		}
		return p.Name()
	}
	g := &goTr{fn: fn, eng: eng, imports: map[string]string{}}
	var b strings.Builder
	var callArgs []string
	params := fn.Params
	if fn.Signature.Recv() != nil {
		params = params[1:]
	}
	for _, p := range params {
		lit, ok := o.goLiteral(p, qual)
		if !ok {
			return fmt.Sprintf("the model gives no usable value for parameter %s (strings longer than %d bytes are not rebuilt)", p.Name(), replayMaxStr), false
		}
		_ = lit
		callArgs = append(callArgs, "in_"+p.Name())
	}
	nres := fn.Signature.Results().Len()
	var rets []string
	for i := 0; i < nres; i++ {
		rets = append(rets, fmt.Sprintf("ret%d", i))
	}
	callee := fn.Name()
	if fn.Signature.Recv() != nil {
		callee = "in_" + fn.Params[0].Name() + "." + fn.Name()
	}
	clauseGo, clauseSrc := "", ""
	safety := isSafetyKind(o.Kind)
	if !safety {
		if o.Kind != "post" {
			return "only postconditions and runtime faults are replayed", false
		}
		c := clauseOf(o)
		if c == nil {
			return "", false
		}
		clauseSrc = c.Src
		body := g.expr(c.Expr)
		if c.When != nil {
			body = "(!(" + g.expr(c.When) + ") || (" + body + "))"
		}
		if g.err != nil {
			return "the clause cannot be evaluated outside the verifier: " + g.err.Error(), false
		}
		clauseGo = body
	}
	b.WriteString("package " + pkg.Name() + "\n\n// Generated by govc: the verifier's counterexample for\n//   " + o.Name + "\n// replayed against the real function.\n\nimport (\n\t\"fmt\"\n\t\"testing\"\n")
	for _, n := range sortedKeys(g.imports) {
		if g.imports[n] == pkg.Path() || n == "fmt" || n == "testing" {
			continue
		}
		fmt.Fprintf(&b, "\t%s %q\n", n, g.imports[n])
	}
	// parameter types may name other packages
	for _, p := range fn.Params {
		if nt, ok := p.Type().(*types.Named); ok && nt.Obj().Pkg() != nil && nt.Obj().Pkg() != pkg {
			if _, ok := g.imports[nt.Obj().Pkg().Name()]; !ok {
				fmt.Fprintf(&b, "\t%s %q\n", nt.Obj().Pkg().Name(), nt.Obj().Pkg().Path())
			}
		}
	}
	b.WriteString(")\n\n")
	b.WriteString(g.ghostFuncs())
	if g.err != nil {
		return "the clause cannot be evaluated outside the verifier: " + g.err.Error(), false
	}
	b.WriteString("func govcAll(lo, hi int, p func(int) bool) bool {\n\tfor i := lo; i < hi; i++ {\n\t\tif !p(i) {\n\t\t\treturn false\n\t\t}\n\t}\n\treturn true\n}\nfunc govcAny(lo, hi int, p func(int) bool) bool {\n\tfor i := lo; i < hi; i++ {\n\t\tif p(i) {\n\t\t\treturn true\n\t\t}\n\t}\n\treturn false\n}\n")
	b.WriteString("func govcSel0[A, B any](a A, b B) A { return a }\nfunc govcSel1[A, B any](a A, b B) B { return b }\nfunc govcIte[T any](c bool, a, b T) T {\n\tif c {\n\t\treturn a\n\t}\n\treturn b\n}\n\n")
	// candidate inputs: the model's values first, then a bounded neighbourhood built from the string literals of the
	// function and of the clause, boundary numbers and the model's integers (the solver's model interprets library
	// functions freely, so its strings rarely mean anything to the real parser)
	toks := replayTokens(fn, o)
	b.WriteString("var govcToks = []string{")
	for _, t := range toks {
		b.WriteString(strconv.Quote(t) + ", ")
	}
	b.WriteString("}\n\n")
	b.WriteString("func govcStrings(first string, depth int, limit int) []string {\n\tout := []string{first, \"\"}\n\tvar rec func(prefix string, d int)\n\trec = func(prefix string, d int) {\n\t\tif len(out) >= limit {\n\t\t\treturn\n\t\t}\n\t\tif prefix != \"\" {\n\t\t\tout = append(out, prefix)\n\t\t}\n\t\tif d == 0 {\n\t\t\treturn\n\t\t}\n\t\tfor _, t := range govcToks {\n\t\t\trec(prefix+t, d-1)\n\t\t}\n\t}\n\trec(\"\", depth)\n\treturn out\n}\n\n")
	b.WriteString("var govcInts = []int64{0, 1, 2, 3, 10, 100, 999, 1000, 1001, 65535, 2147483647, 2147483648, 4294967295, 9223372036854775807, -1, -2147483648}\n\n")
	nStr, nInt := 0, 0
	for _, p := range fn.Params {
		switch o.fe.vals[p].Sort {
		case "Str":
			nStr++
		case "Int":
			nInt++
		}
	}
	depth := 5
	if nStr > 1 {
		depth = 4
	}
	intList := "govcInts"
	if nStr > 0 && nInt > 0 {
		intList = "[]int64{0, 1, 10, 100, 1000, 9223372036854775807}"
	}
	b.WriteString("func TestGovcReplay(t *testing.T) {\n")
	b.WriteString("\ttried := 0\n")
	// nested loops over the candidates of each parameter
	indent := "\t"
	all := fn.Params
	if len(all) > 0 && fn.Signature.Recv() != nil && !simpleType(all[0].Type()) {
		fmt.Fprintf(&b, "\tvar in_%s %s // zero value\n", all[0].Name(), types.TypeString(all[0].Type(), qual))
		all = all[1:]
	}
	var lits []string
	for _, p := range all {
		lit, ok := o.goLiteral(p, qual)
		if !ok {
			return fmt.Sprintf("the model gives no usable value for parameter %s (strings longer than %d bytes are not rebuilt)", p.Name(), replayMaxStr), false
		}
		lits = append(lits, lit)
	}
	firstStr := true
	for i, p := range all {
		ty := types.TypeString(p.Type(), qual)
		switch o.fe.vals[p].Sort {
		case "Bool":
			fmt.Fprintf(&b, "%sfor _, c_%s := range []bool{bool(%s), !bool(%s)} {\n%s\tin_%s := %s(c_%s)\n", indent, p.Name(), lits[i], lits[i], indent, p.Name(), ty, p.Name())
		case "Int":
			fmt.Fprintf(&b, "%sfor _, c_%s := range append([]int64{int64(%s)}, %s...) {\n%s\tin_%s := %s(c_%s)\n%s\tif int64(in_%s) != c_%s {\n%s\t\tcontinue\n%s\t}\n", indent, p.Name(), lits[i], intList, indent, p.Name(), ty, p.Name(), indent, p.Name(), p.Name(), indent, indent)
		case "Str":
			d, lim := depth, 400000
			if !firstStr {
				d, lim = 1, 40
			}
			firstStr = false
			fmt.Fprintf(&b, "%sfor _, c_%s := range govcStrings(string(%s), %d, %d) {\n%s\tin_%s := %s(c_%s)\n", indent, p.Name(), lits[i], d, lim, indent, p.Name(), ty, p.Name())
		}
		indent += "\t"
	}
	var inNames []string
	for _, p := range fn.Params {
		inNames = append(inNames, "in_"+p.Name())
	}
	fmt.Fprintf(&b, "%stried++\n%sif tried > 3000000 {\n%s\tfmt.Println(\"GOVC-REPLAY: SEARCH-EXHAUSTED\")\n%s\treturn\n%s}\n", indent, indent, indent, indent, indent)
	fmt.Fprintf(&b, "%sif govcTry(%s) {\n%s\tfmt.Printf(\"GOVC-REPLAY: INPUT-NUMBER %%d%s\\n\", tried, %s)\n%s\treturn\n%s}\n", indent, strings.Join(inNames, ", "), indent, strings.Repeat(" %#v", len(inNames)), strings.Join(inNames, ", "), indent, indent)
	for range all {
		indent = indent[:len(indent)-1]
		b.WriteString(indent + "}\n")
	}
	b.WriteString("\tfmt.Printf(\"GOVC-REPLAY: NOT-REPRODUCED after %d inputs\\n\", tried)\n}\n\n")
	// one trial: true when the real code shows the failure
	var sigParams []string
	for _, p := range fn.Params {
		sigParams = append(sigParams, fmt.Sprintf("in_%s %s", p.Name(), types.TypeString(p.Type(), qual)))
	}
	fmt.Fprintf(&b, "func govcTry(%s) (failed bool) {\n", strings.Join(sigParams, ", "))
	if safety {
		b.WriteString("\tdefer func() {\n\t\tif r := recover(); r != nil {\n\t\t\tfmt.Printf(\"GOVC-REPLAY: PANIC %v\\n\", r)\n\t\t\tfailed = true\n\t\t}\n\t}()\n")
	} else {
		b.WriteString("\tdefer func() {\n\t\tif r := recover(); r != nil {\n\t\t\tfailed = false // the function or the clause cannot be evaluated for this input\n\t\t}\n\t}()\n")
	}
	if nres > 0 {
		fmt.Fprintf(&b, "\t%s := %s(%s)\n", strings.Join(rets, ", "), callee, strings.Join(callArgs, ", "))
		for _, r := range rets {
			fmt.Fprintf(&b, "\t_ = %s\n", r)
		}
	} else {
		fmt.Fprintf(&b, "\t%s(%s)\n", callee, strings.Join(callArgs, ", "))
	}
	if !safety {
		fmt.Fprintf(&b, "\t// clause: %s\n", strings.ReplaceAll(clauseSrc, "\n", " "))
		fmt.Fprintf(&b, "\tif !(%s) {\n", clauseGo)
		if nres > 0 {
			fmt.Fprintf(&b, "\t\tfmt.Printf(\"GOVC-REPLAY: CLAUSE-FALSE results:%s\\n\", %s)\n", strings.Repeat(" %#v", nres), strings.Join(rets, ", "))
		} else {
			b.WriteString("\t\tfmt.Println(\"GOVC-REPLAY: CLAUSE-FALSE\")\n")
		}
		b.WriteString("\t\treturn true\n\t}\n")
	}
	b.WriteString("\treturn false\n}\n")
	src := b.String()

	// run it inside the package through an overlay
	pkgDir := ""
	for _, p := range eng.pkgs {
		if p.Types == pkg && len(p.GoFiles) > 0 {
			pkgDir = filepath.Dir(p.GoFiles[0])
		}
	}
	if pkgDir == "" {
		return "", false
	}
	tmp, err := os.MkdirTemp("", "govc-replay")
	if err != nil {
		return "", false
	}
	defer os.RemoveAll(tmp)
	testFile := filepath.Join(tmp, "zz_govc_replay_test.go")
	os.WriteFile(testFile, []byte(src), 0o644)
	ov, _ := json.Marshal(map[string]any{"Replace": map[string]string{filepath.Join(pkgDir, "zz_govc_replay_test.go"): testFile}})
	ovFile := filepath.Join(tmp, "ov.json")
	os.WriteFile(ovFile, ov, 0o644)
	ctx, cancel := context.WithTimeout(context.Background(), 120*time.Second)
	defer cancel()
	cmd := exec.CommandContext(ctx, "go", "test", "-v", "-overlay", ovFile, "-vet=off", "-count=1", "-timeout", "60s", "-run", "^TestGovcReplay$", ".")
	cmd.Dir = pkgDir
	cmd.Env = append(os.Environ(), "GOFLAGS=-mod=mod", "GOPROXY=off", "GOSUMDB=off", "GOTOOLCHAIN=local")
	var out bytes.Buffer
	cmd.Stdout, cmd.Stderr = &out, &out
	_ = cmd.Run()
	log := out.String()
	confirmed := strings.Contains(log, "GOVC-REPLAY: INPUT-NUMBER")
	var rep strings.Builder
	rep.WriteString("Go test generated from the model (run inside the package: /verif/replay/inpkg.sh <package dir> <this test> '^TestGovcReplay$'):\n\n")
	rep.WriteString(src)
	rep.WriteString("\noutput of the run against the real code:\n")
	var lines []string
	for _, l := range strings.Split(log, "\n") {
		if strings.Contains(l, "GOVC-REPLAY") || strings.HasPrefix(l, "panic:") || strings.HasPrefix(l, "FAIL") || strings.HasPrefix(l, "ok") || strings.Contains(l, "zz_govc_replay_test.go") {
			lines = append(lines, "  "+l)
		}
	}
	if len(lines) == 0 {
		lines = append(lines, "  "+trunc2(log, 1500))
	}
	rep.WriteString(strings.Join(lines, "\n"))
	if confirmed {
		if strings.Contains(log, "GOVC-REPLAY: INPUT-NUMBER 1 ") {
			rep.WriteString("\n=> the real code shows the failure for the model's inputs\n")
		} else {
			rep.WriteString("\n=> the real code shows the failure for the input printed above; it was found by a bounded search around the model (literals of the function and the clause, boundary numbers, the model's integers) because the model's own strings mean nothing to the real library parsers\n")
		}
	} else {
		rep.WriteString("\n=> the real code does not show the failure for the model's inputs nor for the bounded neighbourhood searched (the model interprets library functions freely)\n")
	}
	return rep.String(), confirmed
}

// replayTokens: building blocks for candidate strings.
func replayTokens(fn *ssa.Function, o *Obligation) []string {
	seen := map[string]bool{}
	var out []string
	add := func(t string) {
		if t == "" || len(t) > 16 || seen[t] || len(out) >= 22 {
			return
		}
		seen[t] = true
		out = append(out, t)
	}
	var lits func(x *Ex)
	lits = func(x *Ex) {
		if x == nil {
			return
		}
		if x.Op == "str" {
			add(x.Name)
		}
		for _, a := range x.Args {
			lits(a)
		}
	}
	if c := clauseOf(o); c != nil {
		lits(c.Expr)
		lits(c.When)
	}
	for _, b := range fn.Blocks {
		for _, in := range b.Instrs {
			for _, op := range in.Operands(nil) {
				if c, ok := (*op).(*ssa.Const); ok && c.Value != nil && isString(c.Type()) {
					add(constantString(c))
				}
			}
		}
	}
	for _, k := range sortedKeys(o.Model) {
		if n, ok := smtInt(o.Model[k]); ok && !strings.Contains(k, "at_s") && !strings.Contains(k, "len_s") {
			add(strconv.FormatInt(n, 10))
		}
	}
	for _, t := range []string{"0", "1", "5", "9", "10", "1000", "1001", "4294967295", "2147483648", "-1", "-", "=", "/", ".", "..", ",", "*", "a"} {
		add(t)
	}
	return out
}
