// Demonstrations for C10: an object under legal hold must not be replaced by a server-side copy
// or by a multipart completion onto its key.
package c10

import (
	"bytes"
	"fmt"
	"regexp"
	"testing"

	"replay/gwtest"
)

func setup(t *testing.T) *gwtest.GW {
	g := gwtest.Start(t, gwtest.Options{})
	g.MustStatus(g.Put(g.RootC, "/lockbkt", nil, map[string]string{"X-Amz-Bucket-Object-Lock-Enabled": "true"}), 200, "create lock bucket")
	g.MustStatus(g.Put(g.RootC, "/lockbkt/held", []byte("protected content"), nil), 200, "put")
	g.MustStatus(g.Put(g.RootC, "/lockbkt/src", []byte("replacement"), nil), 200, "put src")
	g.MustStatus(g.Put(g.RootC, "/lockbkt/held?legal-hold", []byte(`<LegalHold><Status>ON</Status></LegalHold>`), nil), 200, "legal hold")
	if r := g.Put(g.RootC, "/lockbkt/held", []byte("overwrite"), nil); r.Status/100 == 2 {
		t.Fatalf("plain overwrite of the held object was accepted: %s", r)
	}
	if r := g.Delete(g.RootC, "/lockbkt/held", nil); r.Status/100 == 2 {
		t.Fatalf("delete of the held object was accepted: %s", r)
	}
	return g
}

func TestCopyOntoHeldObjectRefused(t *testing.T) {
	g := setup(t)
	r := g.Put(g.RootC, "/lockbkt/held", nil, map[string]string{"X-Amz-Copy-Source": "lockbkt/src"})
	got := g.Get(g.RootC, "/lockbkt/held", nil)
	if string(got.Body) != "protected content" {
		t.Fatalf("CopyObject onto an object under legal hold answered %d and the content is now %q", r.Status, got.Body)
	}
}

func TestCompleteMultipartOntoHeldObjectRefused(t *testing.T) {
	g := setup(t)
	r := g.Post(g.RootC, "/lockbkt/held?uploads", nil, nil)
	g.MustStatus(r, 200, "create multipart upload")
	m := regexp.MustCompile(`<UploadId>([^<]+)</UploadId>`).FindSubmatch(r.Body)
	if m == nil {
		t.Fatalf("no upload id in %s", r.Body)
	}
	id := string(m[1])
	p := g.Put(g.RootC, "/lockbkt/held?partNumber=1&uploadId="+id, bytes.Repeat([]byte("x"), 10), nil)
	g.MustStatus(p, 200, "upload part")
	etag := p.Header.Get("Etag")
	body := fmt.Sprintf(`<CompleteMultipartUpload><Part><PartNumber>1</PartNumber><ETag>%s</ETag></Part></CompleteMultipartUpload>`, etag)
	c := g.Post(g.RootC, "/lockbkt/held?uploadId="+id, []byte(body), nil)
	got := g.Get(g.RootC, "/lockbkt/held", nil)
	if string(got.Body) != "protected content" {
		t.Fatalf("CompleteMultipartUpload onto an object under legal hold answered %d and the content is now %d bytes", c.Status, len(got.Body))
	}
}

// A lock configuration document without <ObjectLockEnabled> was stored as "not enabled": from then on no lock of any
// object in the bucket is looked at, and the held object can be deleted. (And no further configuration is accepted.)
func TestLockConfigurationWithoutEnabledDoesNotSwitchLockingOff(t *testing.T) {
	g := setup(t)
	r := g.Put(g.RootC, "/lockbkt?object-lock", []byte(`<ObjectLockConfiguration xmlns="http://s3.amazonaws.com/doc/2006-03-01/"></ObjectLockConfiguration>`), nil)
	d := g.Delete(g.RootC, "/lockbkt/held", nil)
	got := g.Get(g.RootC, "/lockbkt/held", nil)
	if d.Status/100 == 2 || string(got.Body) != "protected content" {
		t.Fatalf("PUT ?object-lock without ObjectLockEnabled answered %d; DELETE of the object under legal hold then answered %d; GET answers %d %q",
			r.Status, d.Status, got.Status, got.Body)
	}
}
