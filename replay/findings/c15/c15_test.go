// Demonstration for C15: in read-only mode server-side copies must be refused like uploads.
package c15

import (
	"os"
	"path/filepath"
	"testing"

	"replay/gwtest"
)

func TestReadonlyRefusesCopies(t *testing.T) {
	g := gwtest.Start(t, gwtest.Options{Readonly: true})
	// content prepared directly on the file system (the gateway itself is read-only)
	os.MkdirAll(filepath.Join(g.Root, "bkt"), 0o755)
	os.WriteFile(filepath.Join(g.Root, "bkt", "src"), []byte("data"), 0o644)
	if r := g.Put(g.RootC, "/bkt/new", []byte("x"), nil); r.Status != 403 {
		t.Fatalf("PutObject in read-only mode: %s", r)
	}
	r := g.Put(g.RootC, "/bkt/copy", nil, map[string]string{"X-Amz-Copy-Source": "bkt/src"})
	if _, err := os.Stat(filepath.Join(g.Root, "bkt", "copy")); err == nil || r.Status != 403 {
		t.Fatalf("CopyObject in read-only mode answered %d and bkt/copy exists on disk: %v", r.Status, err == nil)
	}
}
