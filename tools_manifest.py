#!/usr/bin/env python3
"""Regenerates /verif/MANIFEST.json from tools_manifest_data.json (claimed checks, N/A reasons)
and the hook commits found in /repo's history. Run by hand after changing the data file."""
import json, subprocess, sys
data = json.load(open('/verif/manifest_data.json'))
hooks = subprocess.run(['git','-C','/repo','log','--format=%H %s'],capture_output=True,text=True).stdout.splitlines()
src = [l.split()[0] for l in hooks if l.split(' ',1)[1].startswith('verif:')]
props = [json.loads(l)['id'] for l in open('/verif/properties.jsonl')]
checks = []
for pid in props:
    c = data['checks'].get(pid)
    if not c: continue
    checks.append({
        "property_id": pid,
        "quick_cmd": f"/verif/bin/check {pid} quick",
        "thorough_cmd": f"/verif/bin/check {pid} thorough",
        "evidence_file": f"/verif/evidence/{pid}.json",
        "replay_cmd_template": "cat {path}",
        "engine": "govc",
        "level_claimed": {"category": "proof", "text": c['text'], "design_ref": c.get('design_ref', 'DESIGN.md §7 '+pid)},
        "level_note": c['note'],
        "technique": c.get('technique', "contract-based deductive verification: requires/ensures/invariants on the real functions, weakest-precondition style VCs generated from go/ssa of /repo, discharged by z3/cvc5"),
    })
na = [{"property_id": p, "reason": data['not_applicable'][p]} for p in props if p not in data['checks']]
missing = [p for p in props if p not in data['checks'] and p not in data['not_applicable']]
assert not missing, missing
m = {
 "version": 1,
 "setup_cmd": "cd /verif/govc && GOFLAGS=-mod=mod GOPROXY=off GOSUMDB=off GOTOOLCHAIN=local go build -o /verif/bin/govc .",
 "hooks": {
   "guard": "verif",
   "enable": "go build tag: -tags verif (the checker loads /repo with this tag; the guarded files zz_contracts_verif.go contain contracts as //@ comments and no executable code)",
   "baseline_off_cmd": "cd /repo && go build ./... && go test -vet=off -count=1 -timeout 25m ./...",
   "source_commits": src,
   "add_only": True
 },
 "engines": [{"name": "govc", "path": "/verif/govc", "serves_properties": [c['property_id'] for c in checks],
              "kind_free_text": "home-made deductive verifier for Go: contracts (//@ requires/ensures/loop invariant/decreases/at-call/lemma) -> verification conditions over go/ssa -> SMT-LIB, solved by z3 5.1.0, cvc5 1.0.3, z3 4.8.12"}],
 "checks": checks,
 "not_applicable": na,
 "notes": data.get('notes','')
}
json.dump(m, open('/verif/MANIFEST.json','w'), indent=1)
print("checks:", [c['property_id'] for c in checks], "n/a:", [x['property_id'] for x in na])
