// Demonstration for C08: an open-ended copy-source range "bytes=N-" selects the bytes N..size-1.
package c08

import (
	"crypto/sha256"
	"encoding/base64"
	"fmt"
	"hash/crc32"
	"os"
	"path/filepath"
	"strings"
	"testing"

	"github.com/versity/versitygw/backend"
	"replay/gwtest"
)

func TestOpenEndedCopySourceRange(t *testing.T) {
	start, length, err := backend.ParseCopySourceRange(10, "bytes=3-")
	if err != nil || start != 3 || length != 7 {
		t.Fatalf("ParseCopySourceRange(10, \"bytes=3-\") = (%d, %d, %v), want (3, 7, nil): the range reaches beyond the source object", start, length, err)
	}
	start, length, err = backend.ParseCopySourceRange(10, "bytes=0-")
	if err != nil || start != 0 || length != 10 {
		t.Fatalf("ParseCopySourceRange(10, \"bytes=0-\") = (%d, %d, %v), want (0, 10, nil)", start, length, err)
	}
}

// An empty upload id names the directory that holds all uploads of a key: UploadPart with ?uploadId=&partNumber=7 was
// accepted without any upload having been initiated and left a part file there.
func TestEmptyUploadIdIsNoUpload(t *testing.T) {
	g := gwtest.Start(t, gwtest.Options{})
	g.MustStatus(g.Put(g.RootC, "/bkt", nil, nil), 200, "create bucket")
	g.MustStatus(g.Post(g.RootC, "/bkt/obj?uploads", nil, nil), 200, "initiate an upload for the key")
	r := g.Put(g.RootC, "/bkt/obj?uploadId=&partNumber=7", []byte("stray part"), nil)
	if r.Err != nil || r.Status/100 == 2 {
		t.Errorf("UploadPart with an empty upload id: %v, want NoSuchUpload", r)
	}
	found := false
	filepath.Walk(filepath.Join(g.Root, "bkt", ".sgwtmp"), func(p string, fi os.FileInfo, err error) error {
		if err == nil && !fi.IsDir() && filepath.Base(p) == "7" {
			found = true
			t.Errorf("part file %s was created", p)
		}
		return nil
	})
	_ = found
	if r := g.Delete(g.RootC, "/bkt/obj?uploadId=", nil); r.Status/100 == 2 {
		t.Errorf("AbortMultipartUpload with an empty upload id: %v, want NoSuchUpload", r)
	}
}

func startUpload(t *testing.T, g *gwtest.GW) string {
	g.MustStatus(g.Put(g.RootC, "/bkt", nil, nil), 200, "create bucket")
	r := g.Post(g.RootC, "/bkt/obj?uploads", nil, nil)
	g.MustStatus(r, 200, "initiate upload")
	id := string(r.Body)
	id = id[strings.Index(id, "<UploadId>")+len("<UploadId>") : strings.Index(id, "</UploadId>")]
	g.MustStatus(g.Put(g.RootC, "/bkt/obj?partNumber=1&uploadId="+id, []byte("part one"), nil), 200, "upload part")
	return id
}

// OPEN FINDING (fails on the current tree): HeadObject with a part number answers from an upload in progress.
func TestHeadObjectPartNumberShowsNoUploadInProgress(t *testing.T) {
	g := gwtest.Start(t, gwtest.Options{})
	startUpload(t, g)
	if r := g.Head(g.RootC, "/bkt/obj?partNumber=1"); r.Status/100 == 2 {
		t.Errorf("HEAD /bkt/obj?partNumber=1 while /bkt/obj does not exist: %d, Content-Length %s", r.Status, r.Header.Get("Content-Length"))
	}
}

// OPEN FINDING (fails on the current tree): the part file of an upload in progress can be read as an object.
func TestPartFileIsNotAnObject(t *testing.T) {
	g := gwtest.Start(t, gwtest.Options{})
	id := startUpload(t, g)
	sum := sha256.Sum256([]byte("obj"))
	key := fmt.Sprintf("/bkt/.sgwtmp/multipart/%x/%s/1", sum, id)
	if r := g.Get(g.RootC, key, nil); r.Status/100 == 2 {
		t.Errorf("GET %s: %d %q", key, r.Status, r.Body)
	}
}

// Completing an upload for the key "dir" while the directory object "dir/" exists removed that other object (the move
// into place unlinks whatever is at the target). PutObject answers 409 in the same situation.
func TestCompletionDoesNotRemoveADirectoryObjectOfTheSameName(t *testing.T) {
	g := gwtest.Start(t, gwtest.Options{})
	g.MustStatus(g.Put(g.RootC, "/bkt", nil, nil), 200, "create bucket")
	g.MustStatus(g.Put(g.RootC, "/bkt/dir/", nil, map[string]string{"X-Amz-Meta-Kind": "directory-object"}), 200, "put directory object dir/")
	r := g.Post(g.RootC, "/bkt/dir?uploads", nil, nil)
	g.MustStatus(r, 200, "initiate upload for the key dir")
	id := string(r.Body)
	id = id[strings.Index(id, "<UploadId>")+len("<UploadId>") : strings.Index(id, "</UploadId>")]
	p := g.Put(g.RootC, "/bkt/dir?partNumber=1&uploadId="+id, []byte("part one"), nil)
	g.MustStatus(p, 200, "upload part")
	body := fmt.Sprintf(`<CompleteMultipartUpload><Part><PartNumber>1</PartNumber><ETag>%s</ETag></Part></CompleteMultipartUpload>`, p.Header.Get("Etag"))
	c := g.Post(g.RootC, "/bkt/dir?uploadId="+id, []byte(body), nil)
	h := g.Head(g.RootC, "/bkt/dir/")
	if c.Status/100 == 2 || h.Status != 200 {
		t.Errorf("CompleteMultipartUpload for the key dir answered %d; the directory object dir/ now answers %d to HEAD", c.Status, h.Status)
	}
}

// A completion that is refused for a wrong full-object checksum had already turned the current object into a version:
// the refused request left a spurious non-current version behind.
func TestRefusedCompletionLeavesNoVersion(t *testing.T) {
	g := gwtest.Start(t, gwtest.Options{Versioning: true})
	g.MustStatus(g.Put(g.RootC, "/vbkt", nil, nil), 200, "create bucket")
	g.MustStatus(g.Put(g.RootC, "/vbkt?versioning", []byte(`<VersioningConfiguration><Status>Enabled</Status></VersioningConfiguration>`), nil), 200, "enable versioning")
	g.MustStatus(g.Put(g.RootC, "/vbkt/obj", []byte("current content"), nil), 200, "put the current object")
	versions := func() int {
		l := g.Get(g.RootC, "/vbkt?versions", nil)
		return strings.Count(string(l.Body), "<Version>")
	}
	before := versions()
	r := g.Post(g.RootC, "/vbkt/obj?uploads", nil, map[string]string{"X-Amz-Checksum-Algorithm": "CRC32", "X-Amz-Checksum-Type": "FULL_OBJECT"})
	g.MustStatus(r, 200, "initiate upload")
	id := string(r.Body)
	id = id[strings.Index(id, "<UploadId>")+len("<UploadId>") : strings.Index(id, "</UploadId>")]
	part := []byte("part one")
	sum := crc32.ChecksumIEEE(part)
	b64 := base64.StdEncoding.EncodeToString([]byte{byte(sum >> 24), byte(sum >> 16), byte(sum >> 8), byte(sum)})
	p := g.Put(g.RootC, "/vbkt/obj?partNumber=1&uploadId="+id, part, map[string]string{"X-Amz-Checksum-Crc32": b64})
	g.MustStatus(p, 200, "upload part")
	body := fmt.Sprintf(`<CompleteMultipartUpload><Part><PartNumber>1</PartNumber><ETag>%s</ETag><ChecksumCRC32>%s</ChecksumCRC32></Part></CompleteMultipartUpload>`, p.Header.Get("Etag"), b64)
	c := g.Post(g.RootC, "/vbkt/obj?uploadId="+id, []byte(body), map[string]string{"X-Amz-Checksum-Crc32": "AAAAAA=="})
	if c.Status/100 == 2 {
		t.Fatalf("completion with a wrong full-object checksum was accepted: %s", c)
	}
	if after := versions(); after != before {
		t.Errorf("the refused completion (%d) changed the number of versions of the key from %d to %d", c.Status, before, after)
	}
}

// A refused upload leaves none of its bytes behind. The first upload into a bucket (and every upload on a file system
// without O_TMPFILE) is received into a named temporary file below .sgwtmp; when the upload was refused the file stayed
// there with the refused bytes (and, see TestPartFileIsNotAnObject, could be read through the API).
func TestRefusedUploadLeavesNoTemporaryFile(t *testing.T) {
	g := gwtest.Start(t, gwtest.Options{})
	g.MustStatus(g.Put(g.RootC, "/bkt", nil, nil), 200, "create bucket")
	body := []byte(strings.Repeat("refused bytes ", 300))
	r := g.Put(g.RootC, "/bkt/obj", body, map[string]string{"Content-Md5": "1B2M2Y8AsgTpgAmY7PhCfg=="}) // the MD5 of the empty string
	if r.Status/100 == 2 {
		t.Fatalf("upload with the wrong Content-MD5 was acknowledged: %v", r)
	}
	var left []string
	filepath.Walk(filepath.Join(g.Root, "bkt"), func(p string, fi os.FileInfo, err error) error {
		if err == nil && !fi.IsDir() {
			left = append(left, fmt.Sprintf("%s (%d bytes)", strings.TrimPrefix(p, g.Root), fi.Size()))
		}
		return nil
	})
	if len(left) != 0 {
		t.Errorf("after the refused upload the bucket directory holds %v", left)
	}
}
