package main

// Per-function verification-condition generator over go/ssa.

import (
	"fmt"
	"go/ast"
	"go/token"
	"go/types"
	"sort"
	"strings"
	"sync"

	"golang.org/x/tools/go/ast/astutil"
	"golang.org/x/tools/go/ssa"
)

type Obligation struct {
	Name    string
	Kind    string
	Props   []string
	Func    string
	Pos     string
	Desc    string
	NFacts  int
	Goal    string
	Show    []string
	fe      *FEnc
	Cover   bool // satisfiability check (expect sat)
	Claimed bool // safety obligation inside a function that is under a no-panic contract as a whole
	NParts  int

	Status string // discharged refuted undecided
	Solver string
	Secs   float64
	Size   int
	Model  map[string]string
	Raw    string
}

type debugRef struct {
	name   string
	obj    types.Object
	x      ssa.Value
	isAddr bool
	block  *ssa.BasicBlock
	idx    int
}

type loopInfo struct {
	header *ssa.BasicBlock
	ord    int
	body   map[*ssa.BasicBlock]bool
	invs   []*Clause
	decs   []*Clause
	iters  []*Clause // "loop k iteration ensures E": checked at every back edge in the state of the iteration that ends
	m0     [][]string // measures at header, per decreases clause
	hstate *State
}

type FEnc struct {
	eng          *Engine
	fn           *ssa.Function
	fc           *FuncContract
	d            *Decls
	consts       []string
	facts        []string
	vals         map[ssa.Value]*Val
	nfresh       int
	allocs       []*AllocInfo
	allocOf      map[*ssa.Alloc]int
	obls         []*Obligation
	exit         map[*ssa.BasicBlock]*State
	debug        []debugRef
	factDone     map[string]bool
	prop         string
	safety       bool
	checked      bool // arithmetic overflow obligations
	phiSubst     map[*ssa.Phi]*Val
	noCall       map[string]*Val // arg/result of a callee asked for where no call to it has been executed (see noCallVal)
	roCapture    map[*ssa.Alloc]bool
	epochRefs    map[int][]keepRef // arrays private to this function whose content survives the havoc that started the epoch
	privArr      map[*ssa.MakeSlice]int // 0 unknown, 1 private candidate (never stored, captured or sent), 2 escapes
	entryPtrs    []string // pointer values that existed when the function was entered (parameters, loads from the entry heap)
	entryPtrSeen map[string]bool
	loops        map[*ssa.BasicBlock]*loopInfo
	domDepth     map[*ssa.BasicBlock]int
	epochN       int
	epochPreds   map[int][]epochEdge
	epochKeep    map[int]epochKeep
	heapSorts    map[string]string
	heapDeclared map[string]bool
	notes        []string // abstractions applied (for evidence)
	unsupported  []string
	entry        *State
	safetyCount  map[string]int
	curBlock     *ssa.BasicBlock
	curIdx       int
	locs         []string
	usedGhost    map[string]bool
	inlined      map[string]bool
	depth        int
	parts        map[string]*Obligation
	partOrder    []string
	atCallHits   map[*Clause]int
	calleesUsed  map[string]*FuncContract
	axiomsUsed   []string
	lemmasUsed   []string
	isLemma      bool
	lemmaIndex   int
	noFacts      bool
	ghostText    []string
	ghostDone    bool
	ghostErr     error
	cur          *State
	splitParts   bool // debugging: one obligation per program point instead of one per clause
	pendingLeaks []int
	factInfo     []factInfo
	symMu        sync.Mutex
	prune        bool // cone-of-influence pruning (off: it dropped needed facts in practice)
	pureAssumed  map[string]bool
	blockPos     map[*ssa.BasicBlock]int    // position in the processing order
	blockReach   map[*ssa.BasicBlock]string // reach condition at block entry
	exposed      map[*ssa.Alloc]bool        // locals whose address is used as a value somewhere in the function
	catParts     map[string][]string        // concatenation term -> its flattened parts
	catCache     map[string]string
	rangeGhost   map[*ssa.Range]int // map iteration -> ghost cell holding the set of keys visited so far
	mergeTarget  *State             // state being built at a join (for merge objects)
	mergeSources []*State           // predecessor exit states, parallel to the values being merged
}

// keepRef: at the start of an epoch the content of array `ref` in heap `name` is what it was in `pred`/`heap`.
type keepRef struct {
	name, ref string
	pred      int
	heap      map[string]string
}

type epochKeep struct {
	pred int
	heap map[string]string
	mod  map[string]bool
}

type epochEdge struct {
	cond  string
	epoch int
	heap  map[string]string
}

func (e *FEnc) fresh(prefix, sort string) string {
	e.nfresh++
	n := fmt.Sprintf("%s!%d", prefix, e.nfresh)
	e.consts = append(e.consts, fmt.Sprintf("(declare-const %s %s)", n, sort))
	return n
}

func (e *FEnc) fact(s string) {
	if s == "true" || s == "" || e.noFacts {
		return
	}
	e.facts = append(e.facts, s)
}

func (e *FEnc) note(s string) {
	for _, n := range e.notes {
		if n == s {
			return
		}
	}
	e.notes = append(e.notes, s)
}

func (e *FEnc) sortOf(t types.Type) string { return e.d.sortOf(t) }

// ---------- values ----------

func (e *FEnc) termVal(t string, ty types.Type) *Val {
	return &Val{Ty: ty, Sort: e.sortOf(ty), T: t}
}

func (e *FEnc) boolVal(t string) *Val { return &Val{Ty: types.Typ[types.Bool], Sort: "Bool", T: t} }
func (e *FEnc) intVal(t string) *Val  { return &Val{Ty: types.Typ[types.Int], Sort: "Int", T: t} }

func (e *FEnc) newVal(ty types.Type, prefix string) *Val {
	if tup, ok := ty.(*types.Tuple); ok {
		v := &Val{Ty: ty, Sort: "Tuple"}
		for i := 0; i < tup.Len(); i++ {
			v.Tup = append(v.Tup, e.newVal(tup.At(i).Type(), prefix))
		}
		return v
	}
	s := e.sortOf(ty)
	t := e.fresh(prefix, s)
	e.typeFacts(t, ty, 0)
	return &Val{Ty: ty, Sort: s, T: t}
}

func (e *FEnc) typeFacts(t string, ty types.Type, depth int) {
	if ty == nil || depth > 3 {
		return
	}
	key := t + "|" + fmt.Sprint(depth)
	if len(t) < 200 {
		if e.factDone[key] {
			return
		}
		e.factDone[key] = true
	}
	switch u := ty.Underlying().(type) {
	case *types.Basic:
		if u.Info()&types.IsInteger != 0 {
			if lo, hi, ok := intRange(u); ok {
				e.fact(fmt.Sprintf("(and (<= %s %s) (<= %s %s))", lo, t, t, hi))
			}
		} else if u.Info()&types.IsString != 0 {
			e.fact(fmt.Sprintf("(and (>= (len_s %s) 0) (<= (len_s %s) 1099511627776))", t, t)) // memLenBound
			e.fact(fmt.Sprintf("(= (= (len_s %s) 0) (= %s %s))", t, t, e.d.strLit("")))
		}
	case *types.Slice:
		e.fact(fmt.Sprintf("(and (>= (sl_off %s) 0) (>= (sl_len %s) 0) (<= (sl_len %s) (sl_cap %s)) (<= (+ (sl_off %s) (sl_cap %s)) 1099511627776) (=> (= (sl_base %s) nil_ref) (= (sl_cap %s) 0)))", t, t, t, t, t, t, t, t))
	case *types.Struct:
		sn := e.sortOf(ty)
		for i := 0; i < u.NumFields(); i++ {
			ft := u.Field(i).Type()
			switch ft.Underlying().(type) {
			case *types.Basic, *types.Slice, *types.Struct:
				e.typeFacts(fmt.Sprintf("(%s %s)", fieldSel(sn, i), t), ft, depth+1)
			}
		}
	}
}

func (e *FEnc) zero(ty types.Type) *Val {
	s := e.sortOf(ty)
	switch u := ty.Underlying().(type) {
	case *types.Basic:
		switch {
		case u.Info()&types.IsBoolean != 0:
			return &Val{Ty: ty, Sort: s, T: "false"}
		case u.Info()&types.IsInteger != 0:
			return &Val{Ty: ty, Sort: s, T: "0"}
		case u.Info()&types.IsString != 0:
			return &Val{Ty: ty, Sort: s, T: e.d.strLit("")}
		case u.Kind() == types.UnsafePointer:
			return &Val{Ty: ty, Sort: s, T: "nil_ref"}
		}
		e.d.add("float0", "(declare-const float_zero Float)")
		return &Val{Ty: ty, Sort: s, T: "float_zero"}
	case *types.Pointer, *types.Map, *types.Chan:
		return &Val{Ty: ty, Sort: s, T: "nil_ref"}
	case *types.Interface, *types.TypeParam:
		return &Val{Ty: ty, Sort: s, T: "nil_iface"}
	case *types.Signature:
		return &Val{Ty: ty, Sort: s, T: "nil_fn"}
	case *types.Slice:
		return &Val{Ty: ty, Sort: s, T: "(mk_slice nil_ref 0 0 0)"}
	case *types.Array:
		// a named all-zero array (cvc5 accepts (as const ...) only over value literals)
		z := e.term(e.zero(u.Elem()))
		nm := "zarr_" + mangle(s)
		if !e.factDone["zarr:"+nm] {
			e.factDone["zarr:"+nm] = true
			e.consts = append(e.consts, fmt.Sprintf("(declare-const %s %s)\n(assert (forall ((i Int)) (! (= (select %s i) %s) :pattern ((select %s i)))))", nm, s, nm, z, nm))
		}
		return &Val{Ty: ty, Sort: s, T: nm}
	case *types.Struct:
		v := &Val{Ty: ty, Sort: s}
		v.Fields = make([]*Val, u.NumFields())
		for i := range v.Fields {
			v.Fields[i] = e.zero(u.Field(i).Type())
		}
		if len(v.Fields) == 0 {
			v.T = "mk_" + s
		}
		return v
	}
	return &Val{Ty: ty, Sort: s, T: "0"}
}

// term materialises a value as an SMT term.
func (e *FEnc) term(v *Val) string {
	if v == nil {
		panic("term(nil)")
	}
	if v.T != "" {
		return v.T
	}
	if v.P != nil {
		if v.NilIf != "" {
			return fmt.Sprintf("(ite %s nil_ref %s)", v.NilIf, e.reify(v.P))
		}
		return e.reify(v.P)
	}
	if v.Fields != nil {
		sn := v.Sort
		if len(v.Fields) == 0 {
			return "mk_" + sn
		}
		var fs []string
		for _, f := range v.Fields {
			fs = append(fs, e.term(f))
		}
		return "(mk_" + sn + " " + strings.Join(fs, " ") + ")"
	}
	if v.Tup != nil {
		panic("term of tuple")
	}
	panic(fmt.Sprintf("term of empty value (type %v)", v.Ty))
}

// reify turns an engine-level pointer into a Ref term; local objects become "leaked".
func (e *FEnc) reify(p *Ptr) string {
	var base string
	switch p.Root {
	case rLocal:
		base = fmt.Sprintf("loc_%d", p.Alloc)
	case rRef:
		base = p.Ref
	case rElem:
		nm := "elemptr_" + e.d.typeKey(p.Elem)
		e.d.add("fn:"+nm, fmt.Sprintf("(declare-fun %s (Ref Int) Ref)", nm))
		base = fmt.Sprintf("(%s %s %s)", nm, p.Base, p.Idx)
	case rGlobal:
		nm := "gaddr_" + mangle(p.Global.String())
		e.d.add("c:"+nm, fmt.Sprintf("(declare-const %s Ref)\n(assert (not (= %s nil_ref)))", nm, nm))
		base = nm
	}
	ty := p.Elem
	for _, el := range p.Path {
		if el.Field >= 0 {
			sn := e.sortOf(ty)
			nm := fmt.Sprintf("fldptr_%s_%d", sn, el.Field)
			e.d.add("fn:"+nm, fmt.Sprintf("(declare-fun %s (Ref) Ref)", nm))
			base = fmt.Sprintf("(%s %s)", nm, base)
			if !e.noFacts && len(base) < 200 {
				e.fact(not(eq(base, "nil_ref"))) // the address of a field is never nil
			}
			ty = structOf(ty).Field(el.Field).Type()
		} else {
			e.d.add("fn:idxptr", "(declare-fun idxptr (Ref Int) Ref)")
			base = fmt.Sprintf("(idxptr %s %s)", base, el.Index)
			if !e.noFacts && len(base) < 200 {
				e.fact(not(eq(base, "nil_ref")))
			}
			if at, ok := ty.Underlying().(*types.Array); ok {
				ty = at.Elem()
			}
		}
	}
	return base
}

func (e *FEnc) newAlloc(ty types.Type, in *ssa.Alloc, name string, st *State) *Val {
	id := len(e.allocs)
	a := &AllocInfo{ID: id, Ty: ty, Instr: in, Name: name}
	e.allocs = append(e.allocs, a)
	loc := fmt.Sprintf("loc_%d", id)
	e.consts = append(e.consts, fmt.Sprintf("(declare-const %s Ref)", loc))
	e.locs = append(e.locs, loc)
	st.cells[id] = e.zero(ty)
	if in != nil && e.exposed[in] {
		e.publish(st, map[int]bool{id: true})
	}
	return &Val{Ty: types.NewPointer(ty), Sort: "Ref", P: &Ptr{Root: rLocal, Alloc: id, Elem: ty}}
}

// ---------- heap ----------

func (e *FEnc) heapGet(st *State, name, sort string) string {
	if t, ok := st.heap[name]; ok {
		return t
	}
	e.heapSorts[name] = sort
	return e.epochHeap(name, sort, st.epoch)
}

func (e *FEnc) epochHeap(name, sort string, epoch int) string {
	n := fmt.Sprintf("%s@%d", name, epoch)
	if e.heapDeclared[n] {
		return n
	}
	e.heapDeclared[n] = true
	e.consts = append(e.consts, fmt.Sprintf("(declare-const %s %s)", n, sort))
	if k, ok := e.epochKeep[epoch]; ok && !k.mod[heapClass(name)] {
		var pt string
		if t, ok := k.heap[name]; ok {
			pt = t
		} else {
			pt = e.epochHeap(name, sort, k.pred)
		}
		e.fact(eq(n, pt))
	}
	for _, pe := range e.epochPreds[epoch] {
		var pt string
		if t, ok := pe.heap[name]; ok {
			pt = t
		} else {
			pt = e.epochHeap(name, sort, pe.epoch)
		}
		e.fact(implies(pe.cond, eq(n, pt)))
	}
	for _, kr := range e.epochRefs[epoch] {
		if kr.name != name {
			continue
		}
		var pt string
		if t, ok := kr.heap[name]; ok {
			pt = t
		} else {
			pt = e.epochHeap(name, sort, kr.pred)
		}
		e.fact(fmt.Sprintf("(= (select %s %s) (select %s %s))", n, kr.ref, pt, kr.ref))
	}
	return n
}

// privateArrays: slices made by this function (make) that were never stored anywhere, captured or sent, and that are
// not handed to the call `in`: the callee cannot reach them (callees do not retain pointers to what they were handed
// earlier), so their elements are the same after the call. Only allocations that dominate the call are considered.
func (e *FEnc) privateArrays(in ssa.Instruction) []*ssa.MakeSlice {
	var out []*ssa.MakeSlice
	if e.privArr == nil {
		e.privArr = map[*ssa.MakeSlice]int{}
	}
	ci, ok := in.(ssa.CallInstruction)
	if !ok {
		return nil
	}
	for _, b := range e.fn.Blocks {
		for bi, x := range b.Instrs {
			m, ok := x.(*ssa.MakeSlice)
			if !ok {
				continue
			}
			if !(b.Dominates(in.Block()) && (b != in.Block() || before(b, bi, in))) {
				continue
			}
			if e.privArr[m] == 0 {
				e.privArr[m] = 1
				if escapesStatic(m, map[ssa.Value]bool{}) {
					e.privArr[m] = 2
				}
			}
			if e.privArr[m] != 1 {
				continue
			}
			handed := false
			for _, a := range ci.Common().Args {
				if derivedFrom(a, m, 0) {
					handed = true
				}
			}
			if !handed {
				out = append(out, m)
			}
		}
	}
	return out
}

func before(b *ssa.BasicBlock, idx int, in ssa.Instruction) bool {
	for i, x := range b.Instrs {
		if x == in {
			return idx < i
		}
	}
	return false
}

// derivedFrom: v is m or a reslice / conversion / phi of it.
func derivedFrom(v ssa.Value, m *ssa.MakeSlice, depth int) bool {
	if depth > 6 {
		return true // give up: treat as derived
	}
	switch x := v.(type) {
	case *ssa.MakeSlice:
		return x == m
	case *ssa.Slice:
		return derivedFrom(x.X, m, depth+1)
	case *ssa.ChangeType:
		return derivedFrom(x.X, m, depth+1)
	case *ssa.MakeInterface:
		return derivedFrom(x.X, m, depth+1)
	case *ssa.Phi:
		for _, ed := range x.Edges {
			if derivedFrom(ed, m, depth+1) {
				return true
			}
		}
	}
	return false
}

// escapesStatic: some use of the slice (or of a reslice of it) stores it, captures it, sends it, returns it in a way
// that lets other code keep it, or uses it in a way this analysis does not follow.
func escapesStatic(v ssa.Value, seen map[ssa.Value]bool) bool {
	if seen[v] {
		return false
	}
	seen[v] = true
	refs := v.Referrers()
	if refs == nil {
		return true
	}
	for _, r := range *refs {
		switch x := r.(type) {
		case *ssa.Store:
			if x.Val == v {
				return true
			}
		case *ssa.MapUpdate, *ssa.MakeClosure, *ssa.Send, *ssa.Return, *ssa.Go, *ssa.Defer:
			return true
		case *ssa.Slice:
			if escapesStatic(x, seen) {
				return true
			}
		case *ssa.ChangeType:
			if escapesStatic(x, seen) {
				return true
			}
		case *ssa.MakeInterface:
			if escapesStatic(x, seen) {
				return true
			}
		case *ssa.Phi:
			if escapesStatic(x, seen) {
				return true
			}
		case *ssa.Call:
			if bi, ok := x.Call.Value.(*ssa.Builtin); ok && bi.Name() == "append" {
				if len(x.Call.Args) > 0 && x.Call.Args[0] == v {
					if escapesStatic(x, seen) { // the result may share the array
						return true
					}
				} else {
					return true // appended as an element / spread into another slice
				}
			}
			// other calls: the callee may write the elements during the call but does not keep the slice
		case *ssa.IndexAddr, *ssa.Index, *ssa.DebugRef, *ssa.Range, *ssa.UnOp, *ssa.BinOp, *ssa.Lookup:
		default:
			return true
		}
	}
	return false
}

func (e *FEnc) heapSet(st *State, name, sort, term string) {
	e.heapSorts[name] = sort
	if len(term) > 120 {
		n := e.fresh(name, sort)
		e.fact(eq(n, term))
		term = n
	}
	st.heap[name] = term
}

// heapClass: "maps" (map contents), "elems" (slice/array elements), "fields" (struct fields), "ptrs" (other pointees)
func heapClass(name string) string {
	switch {
	case strings.HasPrefix(name, "HMd_"), strings.HasPrefix(name, "HMv_"):
		return "maps"
	case strings.HasPrefix(name, "HE_"):
		return "elems"
	case strings.HasPrefix(name, "H_"):
		return "fields"
	}
	return "ptrs"
}

// havocHeapOnly: the callee may change only the given heap classes; every other heap array is unchanged.
func (e *FEnc) havocHeapOnly(st *State, classes []string) {
	mod := map[string]bool{}
	for _, c := range classes {
		mod[c] = true
	}
	oldEpoch, oldHeap := st.epoch, st.heap
	e.epochN++
	st.epoch = e.epochN
	st.heap = map[string]string{}
	for n, t := range oldHeap {
		if !mod[heapClass(n)] {
			st.heap[n] = t
		}
	}
	e.epochKeep[st.epoch] = epochKeep{pred: oldEpoch, heap: oldHeap, mod: mod}
	st.pub = map[int]*Val{}
}

func (e *FEnc) havocHeap(st *State) {
	e.epochN++
	st.epoch = e.epochN
	st.heap = map[string]string{}
	st.pub = map[int]*Val{}
}

// leak marks a local object (and everything reachable from its tracked content) as escaped in the current state.
func (e *FEnc) leak(id int) {
	st := e.cur
	if st == nil {
		e.pendingLeaks = append(e.pendingLeaks, id)
		return
	}
	e.allocs[id].Aliased = true
	if st.leaked[id] {
		return
	}
	st.leaked[id] = true
	if c, ok := st.cells[id]; ok {
		e.leakVal(c)
	}
	for k := range e.allocs[id].Embedded {
		e.leak(k)
	}
}

// reachable: local objects reachable from the given values through tracked cell contents.
func (e *FEnc) reachable(st *State, vs []*Val) map[int]bool {
	out := map[int]bool{}
	var visit func(v *Val)
	visit = func(v *Val) {
		if v == nil {
			return
		}
		if v.P != nil && v.P.Root == rLocal {
			id := v.P.Alloc
			if !out[id] {
				out[id] = true
				if c, ok := st.cells[id]; ok {
					visit(c)
				}
				var emb []int
				for k := range e.allocs[id].Embedded {
					emb = append(emb, k)
				}
				for _, k := range emb {
					if !out[k] {
						visit(&Val{P: &Ptr{Root: rLocal, Alloc: k}})
					}
				}
			}
		}
		for _, f := range v.Fields {
			visit(f)
		}
		for _, f := range v.Tup {
			visit(f)
		}
		if v.Box != nil {
			visit(v.Box)
		}
	}
	for _, v := range vs {
		visit(v)
	}
	return out
}

// publish copies the tracked content of local objects into the heap at their addresses, so that
// contract expressions which reach them through pointers stored in the heap (e.g. *objs[i].Key with
// Key: &key) read the current values.
func (e *FEnc) publish(st *State, ids map[int]bool) {
	var list []int
	for id := range ids {
		list = append(list, id)
	}
	sort.Ints(list)
	for _, id := range list {
		a := e.allocs[id]
		if a.Weak || a.GhostSort != "" || a.Ty == nil {
			continue
		}
		c, ok := st.cells[id]
		if !ok {
			continue
		}
		if st.pub == nil {
			st.pub = map[int]*Val{}
		}
		if last, ok := st.pub[id]; ok && sameVal(last, c) {
			continue // the heap copy is current
		}
		st.pub[id] = c
		loc := fmt.Sprintf("loc_%d", id)
		if sty := structOf(a.Ty); sty != nil {
			for i := 0; i < sty.NumFields(); i++ {
				hn, hs := e.d.heapField(a.Ty, i)
				h := e.heapGet(st, hn, hs)
				e.heapSet(st, hn, hs, fmt.Sprintf("(store %s %s %s)", h, loc, e.term(e.fieldOf(c, i))))
			}
			continue
		}
		if _, isArr := a.Ty.Underlying().(*types.Array); isArr {
			continue // arrays are published when sliced
		}
		hn, hs := e.d.heapPtr(a.Ty)
		h := e.heapGet(st, hn, hs)
		e.heapSet(st, hn, hs, fmt.Sprintf("(store %s %s %s)", h, loc, e.term(c)))
	}
}

// publishExposed keeps the heap copies of all address-exposed locals current (write-through).
func (e *FEnc) publishExposed(st *State) {
	pub := map[int]bool{}
	for id := range st.cells {
		if a := e.allocs[id]; a.Instr != nil && e.exposed[a.Instr] {
			pub[id] = true
		}
	}
	if len(pub) > 0 {
		e.publish(st, pub)
	}
}

func (e *FEnc) markAliased(v *Val) {
	if v == nil {
		return
	}
	if v.P != nil && v.P.Root == rLocal {
		e.allocs[v.P.Alloc].Aliased = true
	}
	for _, f := range v.Fields {
		e.markAliased(f)
	}
	if v.Box != nil {
		e.markAliased(v.Box)
	}
}

func (e *FEnc) freshCell(a *AllocInfo, prefix string) *Val {
	if a.GhostSort != "" {
		return &Val{Sort: a.GhostSort, T: e.fresh(prefix+"_ghost", a.GhostSort)}
	}
	return e.newVal(a.Ty, prefix+"_"+mangle(a.Name))
}

func (e *FEnc) havocSet(st *State, ids map[int]bool) {
	for _, id := range sortedInts(ids) {
		a := e.allocs[id]
		a.Aliased = true
		if _, ok := st.cells[id]; ok && !a.Weak {
			st.cells[id] = e.newVal(a.Ty, fmt.Sprintf("hv_%s", mangle(a.Name)))
		}
	}
}

func (e *FEnc) havocLeaked(st *State) {
	for _, id := range sortedInts(st.cells) {
		a := e.allocs[id]
		if st.leaked[id] && !a.Weak && !e.readOnlyCapture(a) {
			st.cells[id] = e.newVal(a.Ty, fmt.Sprintf("hv_%s", mangle(a.Name)))
		}
	}
}

// ---------- projections ----------

func (e *FEnc) fieldOf(v *Val, i int) *Val {
	st := structOf(v.Ty)
	if v.Fields != nil {
		return v.Fields[i]
	}
	ft := st.Field(i).Type()
	t := fmt.Sprintf("(%s %s)", fieldSel(v.Sort, i), e.small(v))
	e.typeFacts(t, ft, 1)
	return &Val{Ty: ft, Sort: e.sortOf(ft), T: t}
}

// small returns a short term for v, naming large terms with a fresh constant (keeps queries DAG-sized).
func (e *FEnc) small(v *Val) string {
	t := e.term(v)
	if len(t) < 80 || e.noFacts {
		return t
	}
	n := e.fresh("t", v.Sort)
	e.fact(eq(n, t))
	if v.Fields == nil && v.P == nil {
		v.T = n
	}
	return n
}

func (e *FEnc) explode(v *Val) *Val {
	if v.Fields != nil {
		return v
	}
	st := structOf(v.Ty)
	n := &Val{Ty: v.Ty, Sort: v.Sort, Fields: make([]*Val, st.NumFields())}
	for i := range n.Fields {
		n.Fields[i] = e.fieldOf(v, i)
	}
	return n
}

func (e *FEnc) setField(v *Val, i int, nv *Val) *Val {
	x := e.explode(v)
	n := &Val{Ty: x.Ty, Sort: x.Sort, Fields: append([]*Val{}, x.Fields...)}
	n.Fields[i] = nv
	return n
}

func (e *FEnc) project(v *Val, path []PathEl) *Val {
	for _, el := range path {
		if el.Field >= 0 {
			v = e.fieldOf(v, el.Field)
		} else {
			at := v.Ty.Underlying().(*types.Array)
			t := fmt.Sprintf("(select %s %s)", e.small(v), el.Index)
			e.typeFacts(t, at.Elem(), 1)
			v = &Val{Ty: at.Elem(), Sort: e.sortOf(at.Elem()), T: t}
		}
	}
	return v
}

func (e *FEnc) update(v *Val, path []PathEl, nv *Val) *Val {
	if len(path) == 0 {
		return nv
	}
	el := path[0]
	if el.Field >= 0 {
		return e.setField(v, el.Field, e.update(e.fieldOf(v, el.Field), path[1:], nv))
	}
	at := v.Ty.Underlying().(*types.Array)
	vt := e.small(v)
	old := &Val{Ty: at.Elem(), Sort: e.sortOf(at.Elem()), T: fmt.Sprintf("(select %s %s)", vt, el.Index)}
	inner := e.update(old, path[1:], nv)
	return &Val{Ty: v.Ty, Sort: v.Sort, T: fmt.Sprintf("(store %s %s %s)", vt, el.Index, e.small(inner))}
}

// load reads through an engine pointer in state st.
func (e *FEnc) load(st *State, p *Ptr) *Val {
	switch p.Root {
	case rLocal:
		a := e.allocs[p.Alloc]
		if a.Weak {
			ty := e.pathType(p)
			return e.newVal(ty, "weak")
		}
		c, ok := st.cells[p.Alloc]
		if !ok {
			c = e.newVal(a.Ty, "undef")
		}
		return e.project(c, p.Path)
	case rRef:
		if sty := structOf(p.Elem); sty != nil {
			if len(p.Path) > 0 && p.Path[0].Field >= 0 {
				i := p.Path[0].Field
				hn, hs := e.d.heapField(p.Elem, i)
				t := fmt.Sprintf("(select %s %s)", e.heapGet(st, hn, hs), p.Ref)
				ft := sty.Field(i).Type()
				e.typeFacts(t, ft, 1)
				if strings.HasSuffix(hn, "") && e.sortOf(ft) == "Ref" && strings.HasSuffix(e.heapGet(st, hn, hs), "@0") {
					e.entryPtr(t)
				}
				if len(e.eng.cs.NonNilFields) > 0 && e.eng.cs.NonNilFields[types.TypeString(p.Elem, nil)+"."+sty.Field(i).Name()] {
					e.fact(not(eq(t, e.nilOf(e.sortOf(ft)))))
				}
				return e.project(&Val{Ty: ft, Sort: e.sortOf(ft), T: t}, p.Path[1:])
			}
			v := &Val{Ty: p.Elem, Sort: e.sortOf(p.Elem), Fields: make([]*Val, sty.NumFields())}
			for i := range v.Fields {
				hn, hs := e.d.heapField(p.Elem, i)
				ft := sty.Field(i).Type()
				t := fmt.Sprintf("(select %s %s)", e.heapGet(st, hn, hs), p.Ref)
				e.typeFacts(t, ft, 1)
				v.Fields[i] = &Val{Ty: ft, Sort: e.sortOf(ft), T: t}
			}
			if len(v.Fields) == 0 {
				v.T = "mk_" + v.Sort
			}
			return v
		}
		hn, hs := e.d.heapPtr(p.Elem)
		t := fmt.Sprintf("(select %s %s)", e.heapGet(st, hn, hs), p.Ref)
		e.typeFacts(t, p.Elem, 1)
		return e.project(&Val{Ty: p.Elem, Sort: e.sortOf(p.Elem), T: t}, p.Path)
	case rElem:
		hn, hs := e.d.heapElem(p.Elem)
		t := fmt.Sprintf("(select (select %s %s) %s)", e.heapGet(st, hn, hs), p.Base, p.Idx)
		e.typeFacts(t, p.Elem, 1)
		return e.project(&Val{Ty: p.Elem, Sort: e.sortOf(p.Elem), T: t}, p.Path)
	case rGlobal:
		ty := p.Elem
		if gv, ok := p.Global.Object().(*types.Var); ok && len(p.Path) == 0 {
			if cv, ok := e.eng.globalInit(gv); ok {
				return e.constToVal(cv, ty)
			}
		}
		nm := "G_" + mangle(p.Global.String())
		e.d.add("c:"+nm, fmt.Sprintf("(declare-const %s %s)", nm, e.sortOf(ty)))
		e.typeFacts(nm, ty, 0)
		if gv, ok := p.Global.Object().(*types.Var); ok {
			e.globalInitFact(gv, nm)
		}
		return e.project(&Val{Ty: ty, Sort: e.sortOf(ty), T: nm}, p.Path)
	}
	panic("load")
}

func (e *FEnc) pathType(p *Ptr) types.Type {
	ty := p.Elem
	for _, el := range p.Path {
		if el.Field >= 0 {
			ty = structOf(ty).Field(el.Field).Type()
		} else if at, ok := ty.Underlying().(*types.Array); ok {
			ty = at.Elem()
		}
	}
	return ty
}

// prepareStored makes a value storable outside engine cells (pointers to locals become terms).
func (e *FEnc) heapable(v *Val) *Val {
	return &Val{Ty: v.Ty, Sort: v.Sort, T: e.term(v)}
}

func (e *FEnc) store(st *State, p *Ptr, v *Val) {
	switch p.Root {
	case rLocal:
		a := e.allocs[p.Alloc]
		if a.Weak {
			if v.P != nil {
				e.reify(v.P)
			}
			return
		}
		c, ok := st.cells[p.Alloc]
		if !ok {
			c = e.newVal(a.Ty, "undef")
		}
		st.cells[p.Alloc] = e.update(c, p.Path, v)
		e.markAliased(v)
		for id := range e.reachable(st, []*Val{v}) {
			if a.Embedded == nil {
				a.Embedded = map[int]bool{}
			}
			a.Embedded[id] = true
		}
		if a.Instr != nil && e.exposed[a.Instr] {
			e.publish(st, map[int]bool{p.Alloc: true})
		}
		if st.leaked[p.Alloc] {
			e.leakVal(v)
		}
	case rRef:
		e.leakVal(v) // a pointer to a local stored in the heap is reachable by every later callee
		v = e.heapable(v)
		if sty := structOf(p.Elem); sty != nil {
			if len(p.Path) > 0 && p.Path[0].Field >= 0 {
				i := p.Path[0].Field
				hn, hs := e.d.heapField(p.Elem, i)
				h := e.heapGet(st, hn, hs)
				ft := sty.Field(i).Type()
				old := &Val{Ty: ft, Sort: e.sortOf(ft), T: fmt.Sprintf("(select %s %s)", h, p.Ref)}
				nv := e.update(old, p.Path[1:], v)
				e.heapSet(st, hn, hs, fmt.Sprintf("(store %s %s %s)", h, p.Ref, e.term(nv)))
				return
			}
			// whole struct store
			for i := 0; i < sty.NumFields(); i++ {
				hn, hs := e.d.heapField(p.Elem, i)
				h := e.heapGet(st, hn, hs)
				e.heapSet(st, hn, hs, fmt.Sprintf("(store %s %s %s)", h, p.Ref, e.term(e.fieldOf(v, i))))
			}
			return
		}
		hn, hs := e.d.heapPtr(p.Elem)
		h := e.heapGet(st, hn, hs)
		old := &Val{Ty: p.Elem, Sort: e.sortOf(p.Elem), T: fmt.Sprintf("(select %s %s)", h, p.Ref)}
		nv := e.update(old, p.Path, v)
		e.heapSet(st, hn, hs, fmt.Sprintf("(store %s %s %s)", h, p.Ref, e.term(nv)))
	case rElem:
		e.leakVal(v)
		v = e.heapable(v)
		hn, hs := e.d.heapElem(p.Elem)
		h := e.heapGet(st, hn, hs)
		old := &Val{Ty: p.Elem, Sort: e.sortOf(p.Elem), T: fmt.Sprintf("(select (select %s %s) %s)", h, p.Base, p.Idx)}
		nv := e.update(old, p.Path, v)
		e.heapSet(st, hn, hs, fmt.Sprintf("(store %s %s (store (select %s %s) %s %s))", h, p.Base, h, p.Base, p.Idx, e.term(nv)))
	case rGlobal:
		e.note("store to global " + p.Global.String() + " ignored (globals are treated as constants)")
	}
}

// ptrOf turns a pointer-typed value into an engine pointer.
func (e *FEnc) ptrOf(v *Val) *Ptr {
	if v.P != nil {
		return v.P
	}
	var elem types.Type
	if pt, ok := v.Ty.Underlying().(*types.Pointer); ok {
		elem = pt.Elem()
	}
	return &Ptr{Root: rRef, Ref: e.term(v), Elem: elem}
}

// ---------- obligations ----------

func (e *FEnc) posOf(p token.Pos) string {
	if !p.IsValid() {
		return ""
	}
	q := e.eng.prog.Fset.Position(p)
	return fmt.Sprintf("%s:%d", strings.TrimPrefix(q.Filename, "/repo/"), q.Line)
}

func (e *FEnc) oblige(kind, key string, props []string, pos token.Pos, desc, reach, goal string) *Obligation {
	name := fmt.Sprintf("%s#%s#%s", e.fnName(), kind, key)
	o := &Obligation{Name: name, Kind: kind, Props: props, Func: e.fnName(), Pos: e.posOf(pos), Desc: desc,
		NFacts: len(e.facts), Goal: implies(reach, goal), fe: e}
	e.obls = append(e.obls, o)
	return o
}

func (e *FEnc) fnName() string {
	if e.fn == nil {
		return "lemma"
	}
	return shortFn(e.fn)
}

// obligePart accumulates one conjunct of an obligation that spans several program points
// (all returns for an ensures clause, all back edges for an invariant, all matching call sites
// for an at-call clause), so that obligation names do not depend on block numbering.
func (e *FEnc) obligePart(kind, key string, props []string, pos token.Pos, desc, reach, goal string) {
	if e.splitParts {
		e.oblige(kind, key+"@"+e.posOf(pos), props, pos, desc, reach, goal)
		return
	}
	name := fmt.Sprintf("%s#%s#%s", e.fnName(), kind, key)
	o, ok := e.parts[name]
	if !ok {
		o = &Obligation{Name: name, Kind: kind, Props: props, Func: e.fnName(), Pos: e.posOf(pos), Desc: desc, Goal: "true", fe: e}
		e.parts[name] = o
		e.partOrder = append(e.partOrder, name)
	}
	o.Goal = and(o.Goal, implies(reach, goal))
	o.NParts++
}

func (e *FEnc) finalize() {
	for _, n := range e.partOrder {
		o := e.parts[n]
		o.NFacts = len(e.facts)
		e.obls = append(e.obls, o)
	}
	e.partOrder = nil
}

var safetyProps = []string{"C20"}

// safetyOb emits a zero-annotation safety obligation (only when enabled for this function).
func (e *FEnc) safetyOb(st *State, kind string, in ssa.Instruction, what string, goal string) {
	if !e.safety {
		return
	}
	if goal == "true" {
		return
	}
	if src := e.srcExpr(in.Pos()); src != "" {
		what = src
	}
	k := kind + ":" + what
	e.safetyCount[k]++
	key := fmt.Sprintf("%s@%d", what, e.safetyCount[k])
	e.oblige(kind, key, safetyProps, in.Pos(), kind+" "+what, st.reach, goal)
}

func shortFn(f *ssa.Function) string {
	s := f.String()
	s = strings.ReplaceAll(s, "github.com/versity/versitygw/", "")
	return s
}

// ---------- variable resolution for contract expressions ----------

func (e *FEnc) dominatesPoint(b *ssa.BasicBlock, idx int, pb *ssa.BasicBlock, pidx int) bool {
	if b == pb {
		return idx < pidx
	}
	return b.Dominates(pb)
}

// lookupVar finds the value of source variable `name` at program point (blk, idx).
func (e *FEnc) lookupVar(st *State, name string, blk *ssa.BasicBlock, idx int) (*Val, bool) {
	type cand struct {
		depth, idx int
		get        func() *Val
	}
	var best *cand
	consider := func(c cand) {
		if best == nil || c.depth > best.depth || (c.depth == best.depth && c.idx >= best.idx) {
			cc := c
			best = &cc
		}
	}
	for _, dr := range e.debug {
		if dr.name != name {
			continue
		}
		if !e.dominatesPoint(dr.block, dr.idx, blk, idx) {
			continue
		}
		dr := dr
		consider(cand{e.domDepth[dr.block], dr.idx, func() *Val {
			v := e.valOf(dr.x)
			if dr.isAddr {
				return e.load(st, e.ptrOf(v))
			}
			return v
		}})
	}
	// phis named after the variable
	for _, b := range e.fn.Blocks {
		if !(b == blk || b.Dominates(blk)) {
			continue
		}
		for _, in := range b.Instrs {
			ph, ok := in.(*ssa.Phi)
			if !ok {
				break
			}
			if ph.Comment == name {
				ph := ph
				consider(cand{e.domDepth[b], -1, func() *Val { return e.valOf(ph) }})
			}
		}
	}
	if best != nil {
		return best.get(), true
	}
	// no definition dominates the point: the variable received its value only on some paths (e.g. inside
	// an if). Its value here is the one of the last executed definition, and arbitrary on paths without one.
	if v, ok := e.pathMergedVar(st, name, blk, idx); ok {
		return v, true
	}
	for _, p := range e.fn.Params {
		if p.Name() == name {
			return e.valOf(p), true
		}
	}
	for _, fv := range e.fn.FreeVars {
		if fv.Name() == name {
			v := e.valOf(fv)
			// free variables are pointers to the captured variable
			if _, ok := fv.Type().Underlying().(*types.Pointer); ok {
				return e.load(st, e.ptrOf(v)), true
			}
			return v, true
		}
	}
	return nil, false
}

func (e *FEnc) valOf(v ssa.Value) *Val {
	if ph, ok := v.(*ssa.Phi); ok && e.phiSubst != nil {
		if s, ok := e.phiSubst[ph]; ok {
			return s
		}
	}
	if x, ok := e.vals[v]; ok {
		return x
	}
	switch c := v.(type) {
	case *ssa.Const:
		x := e.constVal(c)
		return x
	case *ssa.Global:
		x := &Val{Ty: c.Type(), Sort: "Ref", P: &Ptr{Root: rGlobal, Global: c, Elem: c.Type().Underlying().(*types.Pointer).Elem()}}
		e.vals[v] = x
		return x
	case *ssa.Function:
		nm := "fnval_" + mangle(c.String())
		e.d.add("c:"+nm, fmt.Sprintf("(declare-const %s Fn)\n(assert (not (= %s nil_fn)))", nm, nm))
		x := &Val{Ty: c.Type(), Sort: "Fn", T: nm}
		e.vals[v] = x
		return x
	case *ssa.Builtin:
		return &Val{Ty: c.Type(), Sort: "Fn", T: "nil_fn"}
	}
	// value defined in a block not (yet) processed (unreachable or irreducible flow)
	x := e.newVal(v.Type(), "undef")
	e.vals[v] = x
	return x
}

func (e *FEnc) constVal(c *ssa.Const) *Val {
	ty := c.Type()
	if c.Value == nil {
		return e.zero(ty)
	}
	s := e.sortOf(ty)
	switch s {
	case "Bool":
		if constantBool(c) {
			return &Val{Ty: ty, Sort: s, T: "true"}
		}
		return &Val{Ty: ty, Sort: s, T: "false"}
	case "Int":
		return &Val{Ty: ty, Sort: s, T: bigLit(constantInt(c))}
	case "Str":
		return &Val{Ty: ty, Sort: s, T: e.d.strLit(constantString(c))}
	}
	nm := "fconst_" + mangle(c.Value.ExactString())
	e.d.add("c:"+nm, fmt.Sprintf("(declare-const %s Float)", nm))
	return &Val{Ty: ty, Sort: "Float", T: nm}
}

// ---------- driver ----------

func (e *FEnc) run() {
	fn := e.fn
	if len(fn.Blocks) == 0 {
		return
	}
	// dominator depth
	var walk func(b *ssa.BasicBlock, d int)
	walk = func(b *ssa.BasicBlock, d int) {
		e.domDepth[b] = d
		for _, c := range b.Dominees() {
			walk(c, d+1)
		}
	}
	walk(fn.Blocks[0], 0)
	e.findLoops()
	// pre-collect debug refs
	for _, b := range fn.Blocks {
		for i, in := range b.Instrs {
			if dr, ok := in.(*ssa.DebugRef); ok {
				if obj := dr.Object(); obj != nil {
					if v, isVar := obj.(*types.Var); isVar && !v.IsField() {
						e.debug = append(e.debug, debugRef{obj.Name(), obj, dr.X, dr.IsAddr, b, i})
					}
				}
			}
		}
	}
	e.computeExposed()
	order := e.rpo()
	st := &State{reach: "true", cells: map[int]*Val{}, heap: map[string]string{}, epoch: 0, leaked: map[int]bool{}, pub: map[int]*Val{}, called: map[string]string{}, lastRes: map[string]*Val{}}
	// parameters
	for _, p := range fn.Params {
		v := e.newVal(p.Type(), "p_"+mangle(p.Name()))
		e.vals[p] = v
	}
	for _, p := range fn.Params {
		if v := e.vals[p]; v != nil && v.T != "" && v.Sort == "Ref" {
			e.entryPtr(v.T)
		}
	}
	for _, p := range fn.Params {
		ts := types.TypeString(p.Type(), nil)
		for _, nn := range e.eng.cs.NonNilParams {
			if ts == nn {
				if v := e.vals[p]; v != nil && v.T != "" {
					e.fact(not(eq(v.T, e.nilOf(v.Sort))))
				}
			}
		}
	}
	for _, fv := range fn.FreeVars {
		// A variable captured by reference is private to the defining function and its function literals: inside the
		// literal it is a local cell with an arbitrary entry value (not a heap location an unknown callee could write).
		if pt, ok := fv.Type().Underlying().(*types.Pointer); ok && capturedByRef(fn, fv) {
			pv := e.newAlloc(pt.Elem(), nil, fv.Name(), st)
			cv := e.newVal(pt.Elem(), "cv_"+mangle(fv.Name()))
			st.cells[pv.P.Alloc] = cv
			e.vals[fv] = pv
			// a captured parameter of the enclosing function that is never reassigned still has the properties
			// assumed of that parameter there (a pointer receiver is non-nil; trusted non-nil parameter types)
			if par := spilledParam(fn, fv); par != nil && cv.T != "" {
				pf := par.Parent()
				if pf.Signature.Recv() != nil && len(pf.Params) > 0 && pf.Params[0] == par {
					if _, ok := par.Type().Underlying().(*types.Pointer); ok {
						e.fact(not(eq(cv.T, "nil_ref")))
					}
				}
				ts := types.TypeString(par.Type(), nil)
				for _, nn := range e.eng.cs.NonNilParams {
					if ts == nn {
						e.fact(not(eq(cv.T, e.nilOf(cv.Sort))))
					}
				}
			}
			continue
		}
		v := e.newVal(fv.Type(), "fv_"+mangle(fv.Name()))
		e.vals[fv] = v
		if nl := e.nilOf(v.Sort); v.T != "" && nl != "" {
			e.fact(not(eq(v.T, nl))) // a pointer, map, function or interface captured by value: assumed non-nil (listed)
		}
	}
	if fn.Signature.Recv() != nil && len(fn.Params) > 0 {
		if _, ok := fn.Params[0].Type().Underlying().(*types.Pointer); ok {
			e.fact(not(eq(e.vals[fn.Params[0]].T, "nil_ref")))
			e.note("receiver assumed non-nil")
		}
	}
	e.entry = st.clone()
	// own preconditions
	if e.fc != nil {
		for _, c := range e.fc.Clauses {
			if c.Kind != "requires" {
				continue
			}
			env := e.fnEnv(st, st, nil)
			g, err := e.evalBool(env, c.Expr)
			if err != nil {
				e.unsupported = append(e.unsupported, fmt.Sprintf("requires %q: %v", c.Src, err))
				continue
			}
			e.fact(g)
		}
	}
	e.exit = map[*ssa.BasicBlock]*State{}
	e.blockPos = map[*ssa.BasicBlock]int{}
	e.blockReach = map[*ssa.BasicBlock]string{}
	for i, b := range order {
		e.blockPos[b] = i
	}
	for _, b := range order {
		var cur *State
		if b == fn.Blocks[0] {
			cur = st
		} else {
			cur = e.enterBlock(b)
			if cur == nil {
				continue
			}
		}
		e.curBlock = b
		e.blockReach[b] = cur.reach
		e.cur = cur
		for _, id := range e.pendingLeaks {
			e.leak(id)
		}
		e.pendingLeaks = nil
		for i, in := range b.Instrs {
			e.curIdx = i
			e.instr(cur, b, i, in)
		}
		e.exit[b] = cur
		e.cur = cur
		// back edges out of this block
		for si, s := range b.Succs {
			if li, ok := e.loops[s]; ok && li.body[b] && s.Dominates(b) {
				e.backEdge(cur, b, si, li)
			}
		}
	}
	e.finalize()
	e.ghostDecls() // computed once, before obligations are solved concurrently
}

func (e *FEnc) rpo() []*ssa.BasicBlock {
	seen := map[*ssa.BasicBlock]bool{}
	var post []*ssa.BasicBlock
	var dfs func(b *ssa.BasicBlock)
	dfs = func(b *ssa.BasicBlock) {
		seen[b] = true
		for i := len(b.Succs) - 1; i >= 0; i-- {
			s := b.Succs[i]
			if s.Dominates(b) { // back edge
				continue
			}
			if !seen[s] {
				dfs(s)
			}
		}
		post = append(post, b)
	}
	dfs(e.fn.Blocks[0])
	for i, j := 0, len(post)-1; i < j; i, j = i+1, j-1 {
		post[i], post[j] = post[j], post[i]
	}
	// verify topological (forward edges only go forward); otherwise irreducible
	pos := map[*ssa.BasicBlock]int{}
	for i, b := range post {
		pos[b] = i
	}
	for _, b := range post {
		for _, s := range b.Succs {
			if s.Dominates(b) {
				continue
			}
			if pos[s] <= pos[b] {
				e.unsupported = append(e.unsupported, "irreducible control flow")
			}
		}
	}
	return post
}

func (e *FEnc) findLoops() {
	var headers []*ssa.BasicBlock
	for _, b := range e.fn.Blocks {
		for _, s := range b.Succs {
			if s.Dominates(b) {
				li, ok := e.loops[s]
				if !ok {
					li = &loopInfo{header: s, body: map[*ssa.BasicBlock]bool{s: true}}
					e.loops[s] = li
					headers = append(headers, s)
				}
				// natural loop of back edge b -> s
				stack := []*ssa.BasicBlock{b}
				for len(stack) > 0 {
					x := stack[len(stack)-1]
					stack = stack[:len(stack)-1]
					if li.body[x] {
						continue
					}
					li.body[x] = true
					stack = append(stack, x.Preds...)
				}
			}
		}
	}
	sort.Slice(headers, func(i, j int) bool { return headers[i].Index < headers[j].Index })
	for i, h := range headers {
		li := e.loops[h]
		li.ord = i + 1
		if e.fc != nil {
			for _, c := range e.fc.Clauses {
				if c.Loop == li.ord {
					if c.Kind == "invariant" {
						li.invs = append(li.invs, c)
					} else if c.Kind == "decreases" {
						li.decs = append(li.decs, c)
					} else if c.Kind == "iterensures" {
						li.iters = append(li.iters, c)
					}
				}
			}
		}
	}
}

func (e *FEnc) edgeCond(p *ssa.BasicBlock, succIdx int) string {
	last := p.Instrs[len(p.Instrs)-1]
	if iff, ok := last.(*ssa.If); ok {
		c := e.term(e.valOf(iff.Cond))
		if succIdx == 0 {
			return c
		}
		return not(c)
	}
	return "true"
}

type inEdge struct {
	pred  *ssa.BasicBlock
	pidx  int // index of pred in b.Preds
	cond  string
	state *State
}

func (e *FEnc) forwardEdges(b *ssa.BasicBlock) []inEdge {
	var es []inEdge
	for pi, p := range b.Preds {
		if b.Dominates(p) {
			continue // back edge
		}
		ps, ok := e.exit[p]
		if !ok {
			continue
		}
		si := -1
		cnt := 0
		for k, s := range p.Succs {
			if s == b {
				// handle the (rare) case of both successors being b
				if cnt == 0 {
					si = k
				}
				cnt++
			}
		}
		ec := "true"
		if cnt == 1 {
			ec = e.edgeCond(p, si)
		}
		es = append(es, inEdge{p, pi, and(ps.reach, ec), ps})
	}
	return es
}

func (e *FEnc) nameBool(prefix, t string) string {
	if len(t) < 40 {
		return t
	}
	n := e.fresh(prefix, "Bool")
	e.fact(eq(n, t))
	return n
}

// mergeVals joins values flowing along edges.
func (e *FEnc) mergeVals(conds []string, vs []*Val, prefix string) *Val {
	all := true
	for _, v := range vs[1:] {
		if !sameVal(vs[0], v) {
			all = false
			break
		}
	}
	if all {
		return vs[0]
	}
	allExp := true
	for _, v := range vs {
		if v.Fields == nil || len(v.Fields) != len(vs[0].Fields) {
			allExp = false
		}
	}
	if allExp && len(vs[0].Fields) > 0 {
		n := &Val{Ty: vs[0].Ty, Sort: vs[0].Sort, Fields: make([]*Val, len(vs[0].Fields))}
		for i := range n.Fields {
			fs := make([]*Val, len(vs))
			for k, v := range vs {
				fs[k] = v.Fields[i]
			}
			n.Fields[i] = e.mergeVals(conds, fs, prefix)
		}
		return n
	}
	if vs[0].Tup != nil {
		n := &Val{Ty: vs[0].Ty, Sort: "Tuple", Tup: make([]*Val, len(vs[0].Tup))}
		for i := range n.Tup {
			fs := make([]*Val, len(vs))
			for k, v := range vs {
				fs[k] = v.Tup[i]
			}
			n.Tup[i] = e.mergeVals(conds, fs, prefix)
		}
		return n
	}
	// differing pointers to local objects: when the objects are only reachable through these pointers
	// (SSA dominance: values defined in a branch cannot be used after the join except through the phi)
	// the join gets a merge object whose content is the join of the contents; otherwise tracking stops.
	if m := e.mergeLocals(conds, vs, prefix); m != nil {
		return m
	}
	for _, v := range vs {
		if v.P != nil && v.P.Root == rLocal {
			a := e.allocs[v.P.Alloc]
			a.Weak = true
			if a.MergedInto > 0 {
				e.allocs[a.MergedInto-1].Weak = true
			}
			e.note("pointers to different locals merged: target contents no longer tracked")
		}
	}
	for _, v := range vs {
		if v.Box != nil {
			e.leakVal(v.Box) // the merged interface value no longer shows what it boxes
		}
	}
	sortName := vs[0].Sort
	n := e.fresh(prefix, sortName)
	for i, v := range vs {
		e.fact(implies(conds[i], eq(n, e.term(v))))
	}
	if vs[0].Ty != nil {
		e.typeFacts(n, vs[0].Ty, 0) // the merged value is one of the incoming ones: the type's range facts hold for it
	}
	return &Val{Ty: vs[0].Ty, Sort: sortName, T: n}
}

func (e *FEnc) mergeStates(b *ssa.BasicBlock, es []inEdge) (*State, []string) {
	if len(es) == 1 {
		st := es[0].state.clone()
		st.reach = e.nameBool(fmt.Sprintf("rch%d", b.Index), es[0].cond)
		return st, []string{st.reach}
	}
	conds := make([]string, len(es))
	for i, ed := range es {
		conds[i] = e.nameBool(fmt.Sprintf("edge%d_%d", ed.pred.Index, b.Index), ed.cond)
	}
	st := &State{cells: map[int]*Val{}, heap: map[string]string{}, leaked: map[int]bool{}}
	for _, ed := range es {
		for k := range ed.state.leaked {
			st.leaked[k] = true
		}
	}
	st.lastRes = map[string]*Val{}
	{
		names := map[string]bool{}
		for _, ed := range es {
			for k := range ed.state.lastRes {
				names[k] = true
			}
		}
		for _, k := range sortedKeys(names) {
			var vs []*Val
			var cs []string
			okAll := true
			for i, ed := range es {
				v, ok := ed.state.lastRes[k]
				if !ok {
					// no call on that path: the "last result" is arbitrary there
					okAll = false
					break
				}
				vs = append(vs, v)
				cs = append(cs, conds[i])
			}
			if okAll {
				st.lastRes[k] = e.mergeVals(cs, vs, "lastres")
			} else {
				// some paths made no such call: the "last result" is arbitrary there (clauses guard it by called());
				// on the paths that made one it is that path's value
				var proto *Val
				for _, ed := range es {
					if v, ok := ed.state.lastRes[k]; ok {
						proto = v
					}
				}
				vs, cs = nil, nil
				for i, ed := range es {
					v, ok := ed.state.lastRes[k]
					if !ok {
						v = e.arbitraryLike(proto)
					}
					vs = append(vs, v)
					cs = append(cs, conds[i])
				}
				st.lastRes[k] = e.mergeVals(cs, vs, "lastres")
			}
		}
	}
	st.called = map[string]string{}
	{
		names := map[string]bool{}
		for _, ed := range es {
			for k := range ed.state.called {
				names[k] = true
			}
		}
		for _, k := range sortedKeys(names) {
			var ts []string
			same := true
			for _, ed := range es {
				t, ok := ed.state.called[k]
				if !ok {
					t = "false"
				}
				ts = append(ts, t)
				if t != ts[0] {
					same = false
				}
			}
			if same {
				st.called[k] = ts[0]
				continue
			}
			m := e.fresh("called", "Bool")
			for i := range es {
				e.fact(implies(conds[i], eq(m, ts[i])))
			}
			st.called[k] = m
		}
	}
	st.ncalls = map[string]string{}
	{
		names := map[string]bool{}
		for _, ed := range es {
			for k := range ed.state.ncalls {
				names[k] = true
			}
		}
		for _, k := range sortedKeys(names) {
			var ts []string
			same := true
			for _, ed := range es {
				t, ok := ed.state.ncalls[k]
				if !ok {
					t = "0"
				}
				ts = append(ts, t)
				if t != ts[0] {
					same = false
				}
			}
			if same {
				st.ncalls[k] = ts[0]
				continue
			}
			m := e.fresh("ncalls", "Int")
			for i := range es {
				e.fact(implies(conds[i], eq(m, ts[i])))
			}
			st.ncalls[k] = m
		}
	}
	st.pub = map[int]*Val{}
	for id, v := range es[0].state.pub {
		same := true
		for _, ed := range es[1:] {
			if w, ok := ed.state.pub[id]; !ok || !sameVal(v, w) {
				same = false
			}
		}
		if same {
			st.pub[id] = v
		}
	}
	r := e.fresh(fmt.Sprintf("rch%d", b.Index), "Bool")
	e.fact(eq(r, or(conds...)))
	st.reach = r
	// cells
	ids := map[int]bool{}
	for _, ed := range es {
		for id := range ed.state.cells {
			ids[id] = true
		}
	}
	var idl []int
	for id := range ids {
		idl = append(idl, id)
	}
	sort.Ints(idl)
	for _, id := range idl {
		var cs []string
		var vs []*Val
		for i, ed := range es {
			if v, ok := ed.state.cells[id]; ok {
				cs = append(cs, conds[i])
				vs = append(vs, v)
			}
		}
		st.cells[id] = e.mergeVals(cs, vs, "cell")
	}
	// heap
	sameEpoch := true
	for _, ed := range es[1:] {
		if ed.state.epoch != es[0].state.epoch {
			sameEpoch = false
		}
	}
	names := map[string]bool{}
	for _, ed := range es {
		for n := range ed.state.heap {
			names[n] = true
		}
	}
	if sameEpoch {
		st.epoch = es[0].state.epoch
	} else {
		e.epochN++
		st.epoch = e.epochN
		var pes []epochEdge
		for i, ed := range es {
			pes = append(pes, epochEdge{conds[i], ed.state.epoch, ed.state.heap})
		}
		e.epochPreds[st.epoch] = pes
	}
	for _, n := range sortedKeys(names) {
		sortN := e.heapSorts[n]
		var ts []string
		same := true
		for _, ed := range es {
			t, ok := ed.state.heap[n]
			if !ok {
				t = e.epochHeap(n, sortN, ed.state.epoch)
			}
			ts = append(ts, t)
			if t != ts[0] {
				same = false
			}
		}
		if same {
			st.heap[n] = ts[0]
			continue
		}
		m := e.fresh(n, sortN)
		for i := range es {
			e.fact(implies(conds[i], eq(m, ts[i])))
		}
		st.heap[n] = m
	}
	return st, conds
}

func (e *FEnc) enterBlock(b *ssa.BasicBlock) *State {
	e.cur = nil
	es := e.forwardEdges(b)
	if len(es) == 0 {
		return nil
	}
	st, conds := e.mergeStates(b, es)
	li := e.loops[b]
	// phis: entry values
	phiEntry := map[*ssa.Phi]*Val{}
	for _, in := range b.Instrs {
		ph, ok := in.(*ssa.Phi)
		if !ok {
			break
		}
		var vs []*Val
		var srcs []*State
		for _, ed := range es {
			vs = append(vs, e.valOf(ph.Edges[ed.pidx]))
			srcs = append(srcs, ed.state)
		}
		e.mergeTarget, e.mergeSources = st, srcs
		phiEntry[ph] = e.mergeVals(conds, vs, "phi_"+mangle(ph.Comment))
		e.mergeTarget, e.mergeSources = nil, nil
	}
	if li == nil {
		for ph, v := range phiEntry {
			e.vals[ph] = v
		}
		return st
	}
	// ---- loop header: check invariants on entry, then cut ----
	e.phiSubst = phiEntry
	for _, c := range li.invs {
		env := e.fnEnvAt(st, e.entry, b, -1)
		g, err := e.evalBool(env, c.Expr)
		if err != nil {
			e.unsupported = append(e.unsupported, fmt.Sprintf("loop %d invariant %q: %v", li.ord, c.Src, err))
			continue
		}
		e.oblige("inv-init", clauseKey(c, fmt.Sprintf("loop%d", li.ord)), c.Props, b.Instrs[0].Pos(), c.Src, st.reach, g)
	}
	e.phiSubst = nil
	// havoc
	hs := st.clone()
	for _, in := range b.Instrs { // in block order: the generated names (and so the queries) must not depend on map order
		ph, ok := in.(*ssa.Phi)
		if !ok {
			break
		}
		if _, ok := phiEntry[ph]; !ok {
			continue
		}
		e.vals[ph] = e.newVal(ph.Type(), "lv_"+mangle(ph.Comment))
		e.rangeIndexFacts(ph)
	}
	mod, callsOrHeap := e.loopModifies(li)
	ghostMod := map[int]bool{}
	for b := range li.body {
		for _, in := range b.Instrs {
			if nx, ok := in.(*ssa.Next); ok {
				if rg, ok := nx.Iter.(*ssa.Range); ok {
					if id, ok := e.rangeGhost[rg]; ok {
						ghostMod[id] = true
					}
				}
			}
		}
	}
	leakSafe := e.loopLeakSafe(li)
	for _, id := range sortedInts(hs.cells) {
		a := e.allocs[id]
		_, isArr := a.Ty.(*types.Array)
		if a.Ty != nil {
			_, isArr = a.Ty.Underlying().(*types.Array)
		}
		if a.Instr != nil && mod[a.Instr] || (hs.leaked[id] && callsOrHeap && (!leakSafe || isArr) && !e.readOnlyCapture(a)) || ghostMod[id] {
			hs.cells[id] = e.freshCell(a, "lc")
		}
	}
	if callsOrHeap {
		e.havocHeap(hs)
	}
	for _, bb := range e.fn.Blocks {
		if !li.body[bb] {
			continue
		}
		for _, in := range bb.Instrs {
			if ci, ok := in.(ssa.CallInstruction); ok {
				nm := calleeName(ci.Common())
				if _, tracked := hs.called[nm]; tracked || true {
					if hs.called == nil {
						hs.called = map[string]string{}
					}
					hs.called[nm] = e.fresh("called", "Bool")
					if hs.ncalls == nil {
						hs.ncalls = map[string]string{}
					}
					hs.ncalls[nm] = e.fresh("ncalls", "Int")
				}
			}
		}
	}
	e.publishExposed(hs)
	for _, c := range li.invs {
		env := e.fnEnvAt(hs, e.entry, b, -1)
		g, err := e.evalBool(env, c.Expr)
		if err != nil {
			continue
		}
		e.fact(implies(hs.reach, g))
	}
	for _, c := range li.decs {
		var ms []string
		for _, x := range c.Exprs {
			env := e.fnEnvAt(hs, e.entry, b, -1)
			v, err := e.eval(env, x)
			if err != nil {
				e.unsupported = append(e.unsupported, fmt.Sprintf("loop %d decreases %q: %v", li.ord, c.Src, err))
				ms = nil
				break
			}
			ms = append(ms, e.term(v))
		}
		li.m0 = append(li.m0, ms)
	}
	li.hstate = hs
	return hs
}

func clauseKey(c *Clause, dflt string) string {
	if c.Label != "" {
		return c.Label
	}
	return fmt.Sprintf("%s.%d", dflt, c.Ord)
}

// loopModifies: allocations (defined outside the loop) written or escaping inside it; whether the loop calls or writes the heap.
func (e *FEnc) loopModifies(li *loopInfo) (map[*ssa.Alloc]bool, bool) {
	mod := map[*ssa.Alloc]bool{}
	heap := false
	var root func(v ssa.Value) *ssa.Alloc
	root = func(v ssa.Value) *ssa.Alloc {
		switch x := v.(type) {
		case *ssa.Alloc:
			return x
		case *ssa.FieldAddr:
			return root(x.X)
		case *ssa.IndexAddr:
			return root(x.X)
		}
		return nil
	}
	for b := range li.body {
		for _, in := range b.Instrs {
			switch x := in.(type) {
			case *ssa.DebugRef, *ssa.FieldAddr, *ssa.IndexAddr:
				continue
			case *ssa.UnOp:
				if x.Op == token.MUL {
					continue
				}
			case *ssa.Store:
				if a := root(x.Addr); a != nil {
					mod[a] = true
				} else {
					heap = true
				}
				if a := root(x.Val); a != nil {
					mod[a] = true
				}
				continue
			case *ssa.Call:
				if !e.callKeepsHeap(x.Common()) {
					heap = true
				}
			case *ssa.Defer, *ssa.Go, *ssa.MapUpdate, *ssa.Send:
				heap = true
			}
			for _, op := range in.Operands(nil) {
				if *op == nil {
					continue
				}
				if a := root(*op); a != nil {
					mod[a] = true
				}
			}
		}
	}
	return mod, heap
}

func (e *FEnc) backEdge(st *State, p *ssa.BasicBlock, succIdx int, li *loopInfo) {
	h := li.header
	cond := and(st.reach, e.edgeCond(p, succIdx))
	pidx := -1
	for i, q := range h.Preds {
		if q == p {
			pidx = i
		}
	}
	subst := map[*ssa.Phi]*Val{}
	for _, in := range h.Instrs {
		ph, ok := in.(*ssa.Phi)
		if !ok {
			break
		}
		subst[ph] = e.valOf(ph.Edges[pidx])
	}
	pos := p.Instrs[len(p.Instrs)-1].Pos()
	if !pos.IsValid() {
		pos = h.Instrs[0].Pos()
	}
	for _, c := range li.iters {
		if !c.hasProp(e.prop) && e.prop != "" {
			continue
		}
		env := e.fnEnvAt(st, e.entry, p, len(p.Instrs)-1)
		env.lenient = true
		g, err := e.evalBool(env, c.Expr)
		if err != nil {
			e.unsupportedOnce(fmt.Sprintf("loop %d iteration ensures %q: %v", li.ord, c.Src, err))
			continue
		}
		e.obligePart("iter", clauseKey(c, fmt.Sprintf("loop%d", li.ord)), c.Props, pos, c.Src, cond, g)
	}
	e.phiSubst = subst
	defer func() { e.phiSubst = nil }()
	for _, c := range li.invs {
		env := e.fnEnvAt(st, e.entry, h, -1)
		g, err := e.evalBool(env, c.Expr)
		if err != nil {
			e.unsupported = append(e.unsupported, fmt.Sprintf("loop %d invariant %q (back edge): %v", li.ord, c.Src, err))
			continue
		}
		e.obligePart("inv-pres", clauseKey(c, fmt.Sprintf("loop%d", li.ord)), c.Props, pos, c.Src, cond, g)
	}
	for ci, c := range li.decs {
		if ci >= len(li.m0) || li.m0[ci] == nil {
			continue
		}
		var m1 []string
		ok := true
		for _, x := range c.Exprs {
			env := e.fnEnvAt(st, e.entry, h, -1)
			v, err := e.eval(env, x)
			if err != nil {
				ok = false
				break
			}
			m1 = append(m1, e.term(v))
		}
		if !ok {
			continue
		}
		m0 := li.m0[ci]
		// lexicographic decrease with every component bounded below by 0
		var dec string = "false"
		for i := len(m0) - 1; i >= 0; i-- {
			lt := fmt.Sprintf("(and (< %s %s) (>= %s 0))", m1[i], m0[i], m0[i])
			if i == len(m0)-1 {
				dec = lt
			} else {
				dec = fmt.Sprintf("(or %s (and (= %s %s) %s))", lt, m1[i], m0[i], dec)
			}
		}
		e.obligePart("dec", clauseKey(c, fmt.Sprintf("loop%d-dec", li.ord)), c.Props, pos, "decreases "+c.Src, cond, dec)
	}
}

// srcExpr renders the innermost source expression at pos (stable obligation keys).
func (e *FEnc) srcExpr(pos token.Pos) string {
	if !pos.IsValid() {
		return ""
	}
	for _, p := range e.eng.pkgs {
		for _, f := range p.Syntax {
			if f.FileStart <= pos && pos < f.FileEnd {
				path, _ := astutil.PathEnclosingInterval(f, pos, pos)
				for _, n := range path {
					switch x := n.(type) {
					case *ast.BinaryExpr, *ast.IndexExpr, *ast.SliceExpr, *ast.StarExpr, *ast.SelectorExpr, *ast.CallExpr, *ast.TypeAssertExpr, *ast.UnaryExpr:
						s := types.ExprString(x.(ast.Expr))
						if len(s) > 70 {
							s = s[:70]
						}
						return strings.ReplaceAll(s, " ", "")
					}
				}
				return ""
			}
		}
	}
	return ""
}

// mergeLocals builds a merge object for a phi over pointers to distinct, unaliased local objects (or nil).
func (e *FEnc) mergeLocals(conds []string, vs []*Val, prefix string) *Val {
	st := e.mergeTarget
	if st == nil {
		return nil
	}
	var ty types.Type
	for _, v := range vs {
		if v.P == nil {
			if v.T == "nil_ref" {
				continue
			}
			return nil
		}
		if v.P.Root != rLocal || len(v.P.Path) != 0 {
			return nil
		}
		a := e.allocs[v.P.Alloc]
		if a.Weak || a.Aliased || a.MergedInto > 0 || a.Published {
			return nil
		}
		if ty == nil {
			ty = a.Ty
		} else if !types.Identical(ty, a.Ty) {
			return nil
		}
	}
	if ty == nil {
		return nil
	}
	var cs []string
	var contents []*Val
	nilCond := []string{}
	for i, v := range vs {
		if v.P == nil {
			nilCond = append(nilCond, conds[i])
			continue
		}
		src := e.mergeSources[i]
		if src == nil {
			return nil
		}
		c, ok := src.cells[v.P.Alloc]
		if !ok {
			return nil
		}
		cs = append(cs, conds[i])
		contents = append(contents, c)
	}
	if len(contents) == 0 {
		return nil
	}
	id := len(e.allocs)
	m := &AllocInfo{ID: id, Ty: ty, Name: prefix + "_merged"}
	e.allocs = append(e.allocs, m)
	loc := fmt.Sprintf("loc_%d", id)
	e.consts = append(e.consts, fmt.Sprintf("(declare-const %s Ref)", loc))
	e.locs = append(e.locs, loc)
	st.cells[id] = e.mergeVals(cs, contents, prefix+"_c")
	for _, v := range vs {
		if v.P != nil {
			e.allocs[v.P.Alloc].MergedInto = id + 1
		}
	}
	res := &Val{Ty: vs[0].Ty, Sort: "Ref", P: &Ptr{Root: rLocal, Alloc: id, Elem: ty}}
	if len(nilCond) > 0 {
		res.NilIf = e.nameBool("nilif", or(nilCond...))
	}
	return res
}

// callKeepsHeap: the callee is pure or carries a "frame none" contract (or is a harmless builtin).
func (e *FEnc) callKeepsHeap(cc *ssa.CallCommon) bool {
	if b, ok := cc.Value.(*ssa.Builtin); ok {
		switch b.Name() {
		case "len", "cap", "min", "max", "print", "println", "ssa:wrapnilchk":
			return true
		}
		return false
	}
	var fc *FuncContract
	if cc.IsInvoke() {
		if n := namedOf(cc.Value.Type()); n != nil && n.Obj().Pkg() != nil {
			fc = e.eng.contractByKey("iface:" + n.Obj().Pkg().Path() + "." + n.Obj().Name() + "." + cc.Method.Name())
		}
	} else if fn := cc.StaticCallee(); fn != nil {
		fc = e.eng.contractOf(fn)
	} else {
		fc = e.funcTypeContract(cc)
	}
	return fc != nil && (fc.Pure || fc.NoHavoc)
}

// computeExposed: allocations whose address (or an interior address) is used other than for loading
// from / storing to them — it may then be reachable through pointers held elsewhere.
func (e *FEnc) computeExposed() {
	e.exposed = map[*ssa.Alloc]bool{}
	var root func(v ssa.Value) *ssa.Alloc
	root = func(v ssa.Value) *ssa.Alloc {
		switch x := v.(type) {
		case *ssa.Alloc:
			return x
		case *ssa.FieldAddr:
			return root(x.X)
		case *ssa.IndexAddr:
			return root(x.X)
		}
		return nil
	}
	for _, b := range e.fn.Blocks {
		for _, in := range b.Instrs {
			switch x := in.(type) {
			case *ssa.DebugRef, *ssa.FieldAddr, *ssa.IndexAddr:
				continue
			case *ssa.UnOp:
				if x.Op == token.MUL {
					continue
				}
			case *ssa.Store:
				if a := root(x.Val); a != nil {
					e.exposed[a] = true
				}
				continue
			}
			for _, op := range in.Operands(nil) {
				if *op == nil {
					continue
				}
				if a := root(*op); a != nil {
					e.exposed[a] = true
				}
			}
		}
	}
}

func (e *FEnc) pathMergedVar(st *State, name string, blk *ssa.BasicBlock, idx int) (*Val, bool) {
	type cand struct {
		dr  debugRef
		pos int
	}
	var cs []cand
	for _, dr := range e.debug {
		if dr.name != name || dr.isAddr {
			continue
		}
		ex, done := e.exit[dr.block]
		if !done || ex == nil {
			if dr.block != blk {
				continue
			}
		}
		if dr.block == blk && dr.idx >= idx {
			continue
		}
		cs = append(cs, cand{dr, e.blockPos[dr.block]*100000 + dr.idx})
	}
	if len(cs) == 0 {
		return nil, false
	}
	sort.Slice(cs, func(i, j int) bool { return cs[i].pos < cs[j].pos })
	first := e.valOf(cs[0].dr.x)
	if first.T == "" && first.P == nil && first.Fields == nil {
		return nil, false
	}
	cur := e.newVal(cs[0].dr.x.Type(), "anyv_"+mangle(name))
	for _, c := range cs {
		v := e.valOf(c.dr.x)
		if v.Sort != cur.Sort {
			return nil, false
		}
		var reach string
		if c.dr.block == blk {
			reach = st.reach
		} else {
			reach = e.blockReach[c.dr.block]
		}
		if reach == "" {
			continue
		}
		cur = &Val{Ty: cur.Ty, Sort: cur.Sort, T: fmt.Sprintf("(ite %s %s %s)", reach, e.term(v), e.term(cur))}
	}
	return cur, true
}

// globalInitFact: a package-level variable initialised by a call of a pure function on constants
// (var re = regexp.MustCompile("...")) equals that application (variables are not reassigned: assumption).
// Library sentinel errors: each is the result of its own errors.New call, hence non-nil and distinct from the others
// in this list (aliases such as os.ErrNotExist = fs.ErrNotExist are deliberately not listed).
var sentinelErrors = []string{"io/fs.SkipDir", "io/fs.SkipAll", "io.EOF", "io.ErrUnexpectedEOF", "io.ErrShortWrite", "io.ErrShortBuffer"}

func (e *FEnc) sentinelFacts(gv *types.Var, nm string) {
	if gv.Pkg() == nil || e.noFacts || e.factDone["sentinel:"+nm] {
		return
	}
	full := gv.Pkg().Path() + "." + gv.Name()
	for _, s := range sentinelErrors {
		if s != full {
			continue
		}
		e.factDone["sentinel:"+nm] = true
		e.fact(not(eq(nm, "nil_iface")))
		e.fact(fmt.Sprintf("(= (tagof %s) %d)", nm, e.d.tagOfName("*errors.errorString")))
		for _, o := range sentinelErrors {
			if o == full {
				continue
			}
			on := "G_" + mangle(o)
			e.d.add("c:"+on, fmt.Sprintf("(declare-const %s Iface)", on))
			e.fact(not(eq(nm, on)))
		}
	}
}

func (e *FEnc) globalInitFact(gv *types.Var, nm string) {
	e.sentinelFacts(gv, nm)
	if e.factDone["ginit:"+nm] || e.noFacts {
		return
	}
	ic := e.eng.globalInitCall(gv)
	if ic == nil {
		return
	}
	fn := e.eng.prog.FuncValue(ic.fn)
	if fn == nil {
		return
	}
	if fn.String() == "errors.New" && !e.factDone["sentinel:"+nm] {
		// a package-level `var X = errors.New(...)` of the repository: its own allocation, so non-nil, of the
		// errors package's string-error type and different from the library's sentinels
		e.factDone["sentinel:"+nm] = true
		e.fact(not(eq(nm, "nil_iface")))
		e.fact(fmt.Sprintf("(= (tagof %s) %d)", nm, e.d.tagOfName("*errors.errorString")))
		for _, o := range sentinelErrors {
			on := "G_" + mangle(o)
			e.d.add("c:"+on, fmt.Sprintf("(declare-const %s Iface)", on))
			e.fact(not(eq(nm, on)))
		}
	}
	fc := e.eng.contractOf(fn)
	if fc == nil || !fc.Pure {
		return
	}
	e.factDone["ginit:"+nm] = true
	var args []*Val
	for i, a := range ic.args {
		args = append(args, e.constToVal(a, ic.tys[i]))
	}
	key := fn.String()
	if fn.Signature.Variadic() {
		key += fmt.Sprintf("_v%d", len(args)-(fn.Signature.Params().Len()-1))
	}
	sym, _ := e.pureSym(key, args, fn.Signature.Results().At(0).Type(), 0)
	var ts []string
	for _, a := range args {
		ts = append(ts, e.term(a))
	}
	t := sym
	if len(ts) > 0 {
		t = "(" + sym + " " + strings.Join(ts, " ") + ")"
	}
	e.fact(eq(nm, t))
}

// rangeIndexFacts: the index phi of a compiler-generated `for i := range slice` loop ("rangeindex": starts at -1, the
// header computes k = phi+1 and leaves the loop unless k < n) satisfies -1 <= phi < max(n,0) at the header on every
// iteration. This is the built-in invariant of that loop shape (the source cannot assign to the hidden index).
func (e *FEnc) rangeIndexFacts(ph *ssa.Phi) {
	if ph.Comment != "rangeindex" {
		return
	}
	var inc *ssa.BinOp
	starts := 0
	for _, ed := range ph.Edges {
		if c, ok := ed.(*ssa.Const); ok && c.Value != nil && c.Int64() == -1 {
			starts++
			continue
		}
		b, ok := ed.(*ssa.BinOp)
		if !ok || b.Op != token.ADD || b.X != ssa.Value(ph) || (inc != nil && inc != b) {
			return
		}
		if k, ok := b.Y.(*ssa.Const); !ok || k.Value == nil || k.Int64() != 1 {
			return
		}
		inc = b
	}
	if starts != 1 || inc == nil {
		return
	}
	v := e.vals[ph]
	if v == nil || v.T == "" {
		return
	}
	e.fact(fmt.Sprintf("(>= %s (- 1))", v.T))
	for _, r := range *inc.Referrers() {
		if cmp, ok := r.(*ssa.BinOp); ok && cmp.Op == token.LSS && cmp.X == ssa.Value(inc) {
			if n := e.vals[cmp.Y]; n != nil && n.T != "" {
				e.fact(fmt.Sprintf("(or (< %s %s) (= %s (- 1)))", v.T, n.T, v.T))
			} else if k, ok := cmp.Y.(*ssa.Const); ok && k.Value != nil {
				e.fact(fmt.Sprintf("(or (< %s %d) (= %s (- 1)))", v.T, k.Int64(), v.T))
			}
		}
	}
}

func sortedInts[V any](m map[int]V) []int {
	ks := make([]int, 0, len(m))
	for k := range m {
		ks = append(ks, k)
	}
	sort.Ints(ks)
	return ks
}

// capturedByRef: the free variable is the address of a variable of the enclosing function (go/ssa binds an Alloc),
// as opposed to a pointer value captured by value.
func capturedByRef(fn *ssa.Function, fv *ssa.FreeVar) bool {
	par := fn.Parent()
	if par == nil {
		return false
	}
	idx := -1
	for i, f := range fn.FreeVars {
		if f == fv {
			idx = i
		}
	}
	if idx < 0 {
		return false
	}
	found, byRef := false, true
	for _, b := range par.Blocks {
		for _, in := range b.Instrs {
			mc, ok := in.(*ssa.MakeClosure)
			if !ok || mc.Fn != ssa.Value(fn) || idx >= len(mc.Bindings) {
				continue
			}
			found = true
			switch bv := mc.Bindings[idx].(type) {
			case *ssa.Alloc:
			case *ssa.FreeVar:
				if !capturedByRef(par, bv) {
					byRef = false
				}
			default:
				byRef = false
			}
		}
	}
	return found && byRef
}

// spilledParam: the captured variable is a parameter of the enclosing function whose only assignment is the spill
// at function entry (neither the function nor any of its literals assigns to it again).
func spilledParam(fn *ssa.Function, fv *ssa.FreeVar) *ssa.Parameter {
	par := fn.Parent()
	if par == nil {
		return nil
	}
	idx := -1
	for i, f := range fn.FreeVars {
		if f == fv {
			idx = i
		}
	}
	var alloc *ssa.Alloc
	for _, b := range par.Blocks {
		for _, in := range b.Instrs {
			if mc, ok := in.(*ssa.MakeClosure); ok && mc.Fn == ssa.Value(fn) && idx >= 0 && idx < len(mc.Bindings) {
				switch bv := mc.Bindings[idx].(type) {
				case *ssa.Alloc:
					alloc = bv
				case *ssa.FreeVar:
					return spilledParam(par, bv)
				}
			}
		}
	}
	if alloc == nil || alloc.Referrers() == nil {
		return nil
	}
	var param *ssa.Parameter
	stores := 0
	var scan func(addr ssa.Value) bool
	scan = func(addr ssa.Value) bool {
		refs := addr.Referrers()
		if refs == nil {
			return false
		}
		for _, r := range *refs {
			switch x := r.(type) {
			case *ssa.Store:
				if x.Addr == addr {
					stores++
					if p, ok := x.Val.(*ssa.Parameter); ok {
						param = p
					}
				}
			case *ssa.MakeClosure:
				lit, ok := x.Fn.(*ssa.Function)
				if !ok {
					return false
				}
				for i, bnd := range x.Bindings {
					if bnd == addr && i < len(lit.FreeVars) {
						if !scan(lit.FreeVars[i]) {
							return false
						}
					}
				}
			case *ssa.UnOp, *ssa.DebugRef:
			default:
				return false // address used in some other way
			}
		}
		return true
	}
	if !scan(alloc) || stores != 1 || param == nil {
		return nil
	}
	return param
}

// loopLeakSafe: nothing in the loop can write a scalar or struct local whose address has escaped — no store through
// a pointer that is not rooted in a local of this function, and no call other than builtins that only write slice
// elements / map entries and callees whose contract says the same (or that they write nothing).
func (e *FEnc) loopLeakSafe(li *loopInfo) bool {
	var root func(v ssa.Value) bool
	root = func(v ssa.Value) bool {
		switch x := v.(type) {
		case *ssa.Alloc:
			return true
		case *ssa.FieldAddr:
			return root(x.X)
		case *ssa.IndexAddr:
			return root(x.X)
		}
		return false
	}
	for b := range li.body {
		for _, in := range b.Instrs {
			switch x := in.(type) {
			case *ssa.Store:
				if !root(x.Addr) {
					return false
				}
			case *ssa.Call:
				cc := x.Common()
				if bi, ok := cc.Value.(*ssa.Builtin); ok {
					switch bi.Name() {
					case "append", "copy", "delete", "len", "cap", "min", "max":
						continue
					}
					return false
				}
				if e.callKeepsHeap(cc) {
					continue
				}
				if fc := e.calleeContract(cc); fc != nil && len(fc.Modifies) > 0 && onlyElemsOrMaps(fc.Modifies) {
					continue
				}
				return false
			case *ssa.Defer, *ssa.Go, *ssa.Send, *ssa.Select:
				return false
			}
		}
	}
	return true
}

// readOnlyCapture: the local's address goes nowhere except into function literals that only read the captured
// variable (and loads/stores of the function itself). Code called from here can then not change it: a callee reaches
// a captured variable only by running a literal, and none of them writes it.
func (e *FEnc) readOnlyCapture(a *AllocInfo) bool {
	if a.Instr == nil {
		return false
	}
	if v, ok := e.roCapture[a.Instr]; ok {
		return v
	}
	captured := false
	var scan func(addr ssa.Value, top bool) bool
	scan = func(addr ssa.Value, top bool) bool {
		refs := addr.Referrers()
		if refs == nil {
			return false
		}
		for _, r := range *refs {
			switch x := r.(type) {
			case *ssa.Store:
				if x.Addr != addr {
					return false // the address itself is stored somewhere
				}
				if !top {
					return false // a literal assigns the captured variable
				}
			case *ssa.MakeClosure:
				lit, ok := x.Fn.(*ssa.Function)
				if !ok {
					return false
				}
				captured = true
				for i, bnd := range x.Bindings {
					if bnd == addr && i < len(lit.FreeVars) {
						if !scan(lit.FreeVars[i], false) {
							return false
						}
					}
				}
			case *ssa.UnOp:
				if x.Op != token.MUL {
					return false
				}
			case *ssa.DebugRef:
			default:
				return false
			}
		}
		return true
	}
	ok := scan(a.Instr, true) && captured
	if e.roCapture == nil {
		e.roCapture = map[*ssa.Alloc]bool{}
	}
	e.roCapture[a.Instr] = ok
	return ok
}

// arbitraryLike: a fresh unconstrained value of the same shape as v.
func (e *FEnc) arbitraryLike(v *Val) *Val {
	if v == nil {
		return nil
	}
	if v.Tup != nil {
		n := &Val{Ty: v.Ty, Sort: v.Sort}
		for _, t := range v.Tup {
			n.Tup = append(n.Tup, e.arbitraryLike(t))
		}
		return n
	}
	if v.Ty != nil {
		return e.newVal(v.Ty, "nores")
	}
	if v.T != "" && v.Sort != "" {
		return &Val{Sort: v.Sort, T: e.fresh("nores", v.Sort)}
	}
	return v
}

// entryPtr records a pointer value that existed before the function ran; the addresses of the function's own locals
// and allocations are different from all of them (emitted with every query).
func (e *FEnc) entryPtr(t string) {
	if e.noFacts || len(t) > 300 {
		return
	}
	if e.entryPtrSeen == nil {
		e.entryPtrSeen = map[string]bool{}
	}
	if e.entryPtrSeen[t] {
		return
	}
	e.entryPtrSeen[t] = true
	e.entryPtrs = append(e.entryPtrs, t)
}
