package main

// SMT-LIB text layer: sorts for Go types, declarations, literals.

import (
	"fmt"
	"go/constant"
	"go/types"
	"sort"
	"strings"
	"sync"
)

// Sorts used:
//   Int, Bool            integers (mathematical, range facts added), booleans
//   Str                  Go string: uninterpreted sort with len_s / at_s
//   Ref                  pointers, maps, channels (nil_ref)
//   Iface                interface values (nil_iface, tagof, box_T / unbox_T)
//   Fn                   function values
//   Slice                datatype (base Ref, off, len, cap); elements in heap HE_<T>
//   S_<name>             one datatype per struct type
//   (Array Int T)        Go arrays

type Decls struct {
	pre      []string // sort / datatype / function declarations, in dependency order
	seen     map[string]bool
	structs  map[string]*types.Struct // sort name -> struct
	anon     map[string]string        // struct string -> sort name
	lits     map[string]string        // string literal -> const name
	litOrder []string
	litMu    sync.Mutex
	ground   map[string]func(string) string // symbol of a library string function -> the function, for ground facts over the literals
	tags     map[string]int // concrete type name -> iface tag
	tagOrder []string
}

func newDecls() *Decls {
	d := &Decls{seen: map[string]bool{}, structs: map[string]*types.Struct{}, anon: map[string]string{}, lits: map[string]string{}, tags: map[string]int{}, ground: map[string]func(string) string{}}
	d.pre = append(d.pre,
		"(declare-sort Str 0)",
		"(declare-sort Ref 0)",
		"(declare-sort Iface 0)",
		"(declare-sort Fn 0)",
		"(declare-sort Float 0)",
		"(declare-const nil_ref Ref)",
		"(declare-const nil_iface Iface)",
		"(declare-const nil_fn Fn)",
		"(declare-fun len_s (Str) Int)",
		"(declare-fun at_s (Str Int) Int)",
		"(declare-fun tagof (Iface) Int)",
		"(assert (= (tagof nil_iface) 0))",
		"(declare-datatypes ((Slice 0)) (((mk_slice (sl_base Ref) (sl_off Int) (sl_len Int) (sl_cap Int)))))",
		// element index of a slice, wrapped in a function symbol so that quantifiers over indices
		// have arithmetic-free patterns
		"(declare-fun concat_s (Str Str) Str)",
		"(declare-fun sub_s (Str Int Int) Str)",
		"(declare-fun str_less (Str Str) Bool)",
	)
	return d
}

func mangle(s string) string {
	s = strings.ReplaceAll(s, "github.com/versity/versitygw/", "")
	s = strings.ReplaceAll(s, "github.com/aws/aws-sdk-go-v2/service/s3/types", "s3types")
	s = strings.ReplaceAll(s, "github.com/aws/aws-sdk-go-v2/service/s3", "s3")
	s = strings.ReplaceAll(s, "github.com/gofiber/fiber/v2", "fiber")
	var b strings.Builder
	for _, r := range s {
		switch {
		case r >= 'a' && r <= 'z', r >= 'A' && r <= 'Z', r >= '0' && r <= '9':
			b.WriteRune(r)
		default:
			b.WriteByte('_')
		}
	}
	return b.String()
}

func (d *Decls) add(key, decl string) {
	if d.seen[key] {
		return
	}
	d.seen[key] = true
	d.pre = append(d.pre, decl)
}

// typeKey gives a stable name for heap arrays keyed by a Go type.
func (d *Decls) typeKey(t types.Type) string {
	switch u := t.(type) {
	case *types.Named:
		if _, ok := u.Underlying().(*types.Struct); ok {
			return d.sortOf(t)
		}
		if _, ok := u.Underlying().(*types.Interface); ok {
			return "Iface"
		}
		return mangle(types.TypeString(t, nil))
	case *types.Alias:
		return d.typeKey(types.Unalias(t))
	case *types.Basic:
		name := u.Name()
		switch u.Kind() { // byte and rune are aliases: the same type as uint8 / int32
		case types.Uint8:
			name = "uint8"
		case types.Int32:
			name = "int32"
		}
		return "b_" + mangle(name) // one key per Go type: int and int64 box to different dynamic types
	case *types.Pointer:
		return "p_" + d.typeKey(u.Elem())
	case *types.Slice:
		return "s_" + d.typeKey(u.Elem())
	}
	return mangle(d.sortOf(t))
}

func (d *Decls) sortOf(t types.Type) string {
	if t == nil {
		return "Int"
	}
	switch u := t.(type) {
	case *types.Alias:
		return d.sortOf(types.Unalias(t))
	case *types.Named:
		if st, ok := u.Underlying().(*types.Struct); ok {
			name := "S_" + mangle(types.TypeString(u, nil))
			d.declStruct(name, st)
			return name
		}
		return d.sortOf(u.Underlying())
	case *types.Basic:
		switch {
		case u.Info()&types.IsBoolean != 0:
			return "Bool"
		case u.Info()&types.IsInteger != 0:
			return "Int"
		case u.Info()&types.IsString != 0:
			return "Str"
		case u.Info()&types.IsFloat != 0:
			return "Float"
		case u.Kind() == types.UnsafePointer:
			return "Ref"
		case u.Kind() == types.UntypedNil:
			return "Ref"
		}
		return "Float"
	case *types.Pointer, *types.Map, *types.Chan:
		return "Ref"
	case *types.Interface:
		return "Iface"
	case *types.Signature:
		return "Fn"
	case *types.Slice:
		return "Slice"
	case *types.Array:
		return "(Array Int " + d.sortOf(u.Elem()) + ")"
	case *types.Struct:
		key := u.String()
		if n, ok := d.anon[key]; ok {
			return n
		}
		name := fmt.Sprintf("S_anon%d", len(d.anon))
		d.anon[key] = name
		d.declStruct(name, u)
		return name
	case *types.Tuple:
		return "Tuple"
	case *types.TypeParam:
		return "Iface"
	}
	return "Int"
}

func (d *Decls) declStruct(name string, st *types.Struct) {
	if d.seen["struct:"+name] {
		return
	}
	d.seen["struct:"+name] = true
	d.structs[name] = st
	var fs []string
	for i := 0; i < st.NumFields(); i++ {
		fs = append(fs, fmt.Sprintf("(%s %s)", fieldSel(name, i), d.sortOf(st.Field(i).Type())))
	}
	if len(fs) == 0 {
		d.pre = append(d.pre, fmt.Sprintf("(declare-datatypes ((%s 0)) (((mk_%s))))", name, name))
		return
	}
	d.pre = append(d.pre, fmt.Sprintf("(declare-datatypes ((%s 0)) (((mk_%s %s))))", name, name, strings.Join(fs, " ")))
}

func fieldSel(sortName string, i int) string { return fmt.Sprintf("f%d_%s", i, sortName) }

func structOf(t types.Type) *types.Struct {
	if t == nil {
		return nil
	}
	st, _ := t.Underlying().(*types.Struct)
	return st
}

// heap array names
func (d *Decls) heapField(structT types.Type, i int) (name, sort string) {
	sn := d.sortOf(structT)
	st := structOf(structT)
	name = fmt.Sprintf("H_%s_%d", sn, i)
	sort = "(Array Ref " + d.sortOf(st.Field(i).Type()) + ")"
	return
}
func (d *Decls) heapPtr(elem types.Type) (name, sort string) {
	return "HP_" + d.typeKey(elem), "(Array Ref " + d.sortOf(elem) + ")"
}
func (d *Decls) heapElem(elem types.Type) (name, sort string) {
	return "HE_" + d.typeKey(elem), "(Array Ref (Array Int " + d.sortOf(elem) + "))"
}

// slIdx: element index of a slice, wrapped in a function symbol so that quantifiers over indices get
// arithmetic-free patterns; declared (with its defining axiom) only in queries that use it.
func (d *Decls) slIdx(s, i string) string {
	d.add("sl_idx", "(declare-fun sl_idx (Slice Int) Int)\n(assert (forall ((s Slice) (i Int)) (! (= (sl_idx s i) (+ (sl_off s) i)) :pattern ((sl_idx s i)))))")
	return "(sl_idx " + s + " " + i + ")"
}

func (d *Decls) strLit(s string) string {
	d.litMu.Lock()
	defer d.litMu.Unlock()
	return d.strLitLocked(s)
}

func (d *Decls) strLitLocked(s string) string {
	if n, ok := d.lits[s]; ok {
		return n
	}
	n := fmt.Sprintf("lit%d", len(d.lits))
	if s == "" {
		n = "lit_empty"
	}
	d.lits[s] = n
	d.litOrder = append(d.litOrder, s)
	return n
}

// literal axioms: lengths, bytes (first 48 bytes), pairwise distinct
func (d *Decls) litDecls() []string {
	d.litMu.Lock() // queries of one function are built concurrently; the closure below may add literals
	defer d.litMu.Unlock()
	var out []string
	var names []string
	gsyms := make([]string, 0, len(d.ground))
	for sym := range d.ground {
		gsyms = append(gsyms, sym)
	}
	sort.Strings(gsyms)
	for i := 0; i < len(d.litOrder); i++ { // the images are literals too (the loop sees the ones it adds)
		for _, sym := range gsyms {
			d.strLitLocked(d.ground[sym](d.litOrder[i]))
		}
	}
	for _, s := range d.litOrder {
		n := d.lits[s]
		names = append(names, n)
		out = append(out, fmt.Sprintf("(declare-const %s Str) ; %q", n, trunc(s, 60)))
		out = append(out, fmt.Sprintf("(assert (= (len_s %s) %d))", n, len(s)))
		for i := 0; i < len(s) && i < 48; i++ {
			out = append(out, fmt.Sprintf("(assert (= (at_s %s %d) %d))", n, i, s[i]))
		}
	}
	if len(names) > 1 {
		out = append(out, "(assert (distinct "+strings.Join(names, " ")+"))")
	}
	for _, sym := range gsyms {
		for _, s := range d.litOrder {
			out = append(out, fmt.Sprintf("(assert (= (%s %s) %s))", sym, d.lits[s], d.lits[d.ground[sym](s)]))
		}
	}
	return out
}

func trunc(s string, n int) string {
	s = strings.ReplaceAll(s, "\n", "\\n")
	if len(s) > n {
		return s[:n] + "…"
	}
	return s
}

func (d *Decls) tagOf(t types.Type) int {
	k := types.TypeString(t, nil)
	if n, ok := d.tags[k]; ok {
		return n
	}
	n := len(d.tags) + 1
	d.tags[k] = n
	d.tagOrder = append(d.tagOrder, k)
	return n
}

func (d *Decls) tagOfName(k string) int {
	if n, ok := d.tags[k]; ok {
		return n
	}
	n := len(d.tags) + 1
	d.tags[k] = n
	d.tagOrder = append(d.tagOrder, k)
	return n
}

// box/unbox function names for a concrete type
func (d *Decls) boxFns(t types.Type) (box, unbox string) {
	k := d.typeKey(t)
	box, unbox = "box_"+k, "unbox_"+k
	s := d.sortOf(t)
	d.add("box:"+k, fmt.Sprintf("(declare-fun %s (%s) Iface)\n(declare-fun %s (Iface) %s)\n(assert (forall ((x %s)) (! (and (= (%s (%s x)) x) (= (tagof (%s x)) %d)) :pattern ((%s x)))))",
		box, s, unbox, s, s, unbox, box, box, d.tagOf(t), box))
	return
}

func intLit(n int64) string {
	if n < 0 {
		return fmt.Sprintf("(- %d)", -n)
	}
	return fmt.Sprintf("%d", n)
}

func bigLit(v constant.Value) string {
	s := v.ExactString()
	if strings.HasPrefix(s, "-") {
		return "(- " + s[1:] + ")"
	}
	return s
}

func intRange(b *types.Basic) (lo, hi string, ok bool) {
	switch b.Kind() {
	case types.Int8:
		return "(- 128)", "127", true
	case types.Int16:
		return "(- 32768)", "32767", true
	case types.Int32, types.UntypedRune:
		return "(- 2147483648)", "2147483647", true
	case types.Int, types.Int64, types.UntypedInt:
		return "(- 9223372036854775808)", "9223372036854775807", true
	case types.Uint8:
		return "0", "255", true
	case types.Uint16:
		return "0", "65535", true
	case types.Uint32:
		return "0", "4294967295", true
	case types.Uint, types.Uint64, types.Uintptr:
		return "0", "18446744073709551615", true
	}
	return "", "", false
}

func and(xs ...string) string {
	var ys []string
	for _, x := range xs {
		if x == "true" || x == "" {
			continue
		}
		if x == "false" {
			return "false"
		}
		ys = append(ys, x)
	}
	switch len(ys) {
	case 0:
		return "true"
	case 1:
		return ys[0]
	}
	return "(and " + strings.Join(ys, " ") + ")"
}

func or(xs ...string) string {
	var ys []string
	for _, x := range xs {
		if x == "false" || x == "" {
			continue
		}
		if x == "true" {
			return "true"
		}
		ys = append(ys, x)
	}
	switch len(ys) {
	case 0:
		return "false"
	case 1:
		return ys[0]
	}
	return "(or " + strings.Join(ys, " ") + ")"
}

func not(x string) string {
	switch x {
	case "true":
		return "false"
	case "false":
		return "true"
	}
	if strings.HasPrefix(x, "(not ") && strings.HasSuffix(x, ")") && balanced(x[5:len(x)-1]) {
		return x[5 : len(x)-1]
	}
	return "(not " + x + ")"
}

func balanced(s string) bool {
	d := 0
	for i, c := range s {
		switch c {
		case '(':
			d++
		case ')':
			d--
			if d < 0 {
				return false
			}
			if d == 0 && i != len(s)-1 {
				return false
			}
		case ' ':
			if d == 0 {
				return false
			}
		}
	}
	return d == 0
}

func implies(a, b string) string {
	if a == "true" {
		return b
	}
	if b == "true" || a == "false" {
		return "true"
	}
	return "(=> " + a + " " + b + ")"
}

func eq(a, b string) string {
	if a == b {
		return "true"
	}
	return "(= " + a + " " + b + ")"
}

func sortedKeys[V any](m map[string]V) []string {
	ks := make([]string, 0, len(m))
	for k := range m {
		ks = append(ks, k)
	}
	sort.Strings(ks)
	return ks
}
